"""C08 — files are offered and uploaded only to entitled users (DESIGN §4 C08).

One world per history: the real uploading client 'up' (logged in, 1-3 shared
directories scanned) against three scripted users — fred (friend), lisa (listed
in USERS directories), stan (stranger) — and the scripted server.  Every
observation is made at the scripted parties' boundary (frames that arrive at a
scripted user, bytes the client writes on a file connection) or through
listener notifications (TransferAddedEvent, state edges); the oracle is the
entitlement model below, a pure function of the harness' own copy of the
configuration and of the reference index (vf/sharesmodel.py).
"""
from __future__ import annotations

import asyncio
import os
import random
from functools import reduce

from .. import runner
from ..monitors import TransferMonitor, safety_net_violations
from ..sharesmodel import EVERYONE, FRIENDS, USERS, RefIndex
from ..simloop import settle, yields
from ..simnet import ConnPlan
from ..uploads import Downloader
from ..world import World, run_world

ID = 'C08'
LEVEL = 'exploration'
QUICK_SCALE = 4      # the quick tier was enlarged by this factor after MIN_OBS['quick'] was measured
RULE = (
    "One history = one simulated world: real uploader 'up' with 1-3 shared directories (sibling and nested layouts; the "
    "39 assignments of everyone/friends/users to 1..3 directories are enumerated round-robin over the cases), three "
    "files each (mixed-case names, one in a sub-directory, one optionally deleted from disk after the scan), three "
    "scripted users fred/lisa/stan with seeded friends list, USERS lists and block flags (NONE/UPLOADS/SEARCHES/SHARES/"
    "ALL/combinations). Histories of <= 8 steps from five templates: re-evaluation (an upload is brought into QUEUED "
    "[slot limit 0] / INITIALIZING [silent downloader, or hanging connect] / UPLOADING [downloader holds the file "
    "connection] / PAUSED / ABORTED by the user / COMPLETE, then a change that forbids it [block, friend removed, "
    "directory mode/users changed, directory removed + rescan], optionally a request while forbidden or an unrelated "
    "change, then a change that permits it again, optionally forbidden again); requests (PeerTransferQueue / "
    "PeerTransferRequest(direction upload) for paths exact, UPPER, lower, doubled and forward separators, unknown, "
    "deleted-from-disk, from every user); searches (ServerSearchRequest, FileSearch and, with a scripted distributed "
    "parent, DistributedSearchRequest; ExcludedSearchPhrases pushed in lower / UPPER / Mixed case: whole words and substrings cut "
    "INSIDE the words of real paths of the run — inside one word (1-3 characters or longer), spanning a space, "
    "spanning the path separator, long — followed by searches that hit the file the phrase was cut from); shares "
    "(PeerSharesRequest, PeerDirectoryContentsRequest for a top directory, a sub-directory, an unknown one); mixed; "
    "double change (an upload to fred UPLOADING and held, a second upload to lisa/stan QUEUED / UPLOADING / aborted "
    "for a configuration reason; change 1 forbids the first, after a seeded gap of 0-8 loop steps or 1-30 ms — for a "
    "polled first change counted from the library's FriendListChanged/BlockListChanged notification — change 2 "
    "forbids or permits the second; all change kinds, directory removal without rescan; both judged 3 s after the "
    "second); nested (A contains B contains C, C or B removed / added again WITHOUT a rescan, then requests, "
    "searches and shares requests for its files from every user: the files belong to the closest remaining parent); "
    "shift (another user's upload — aborted by the user / complete / active — FIRST in the transfer list, then an "
    "upload to fred UPLOADING and held with 1-2 further queued uploads to fred behind it; a change forbids fred and, "
    "after the same seeded gap of 0-8 loop steps / 1-30 ms, the user removes the first list entry with "
    "TransferManager.remove(); all judged 3 s later); prefix (a restricted directory holds live/, live_private/ and "
    "live_takes.mp3; live/ is added as a shared directory of its own — mostly EVERYONE — WITHOUT a rescan, then "
    "requests, searches and shares requests for the prefix siblings and the files below live/, mostly from the "
    "stranger; optionally removed again without rescan or rescanned). "
    "Every configuration change is followed by 3 virtual seconds (user-management poll 1 s + management cycle), then "
    "every upload is judged. Non-trivial: >= 1 decisive observation (a refused-expected request, a search / shares "
    "reply, an upload present when a change landed); distinct = (mode assignment, list signature, state of the upload "
    "when the change arrived, change kind).")
ASSUMPTIONS = [
    "E(u,p): p is the remote path (as the library names it: item.get_remote_path()) of an indexed file whose owning "
    "shared directory (reference index, by absolute path) is EVERYONE, or FRIENDS and u in the friends list, or USERS "
    "and u in that directory's list; U(u,p) = E(u,p) and u not blocked for UPLOADS. Remote paths are compared exactly "
    "(case variants and extra / forward separators are unknown paths: a refusal is what the statement asks for).",
    "the configuration is the one the harness wrote into settings / passed to the shares API; a request is judged "
    "against the configuration in force when it was sent (every step ends at quiescence)",
    "a file deleted from disk after the scan counts as 'not shared' for NEW requests (refusal expected); existing "
    "uploads are re-evaluated against the index only",
    "bytes-served is judged for transfers STARTED (edge into INITIALIZING) while not permitted and more than 3 virtual "
    "seconds after the last configuration change; a start inside the re-evaluation window is counted "
    "(starts_inside_reeval_window), not judged: the statement grants the re-evaluation a delay",
    "an upload aborted on the user's request that is (also) no longer permitted may keep the reason Requested",
    "excluded phrases are never part of a directory alias (such phrases are dropped before the push); a phrase is "
    "looked for, case-insensitively, in the file name the reply carries (remote path) below its first component (the "
    "alias, random letters standing for the local location of the shared directory)",
    "remove_shared_directory hands the files of a nested directory to the closest remaining shared parent and "
    "add_shared_directory takes over the files of the closest parent below the new directory (docstrings of both; "
    "vf/sharesmodel.py RefIndex.add / remove), with or without a rescan",
    "not judged: that permitted requests are served (only counted), search result completeness (C07/C14), attributes",
]
MIN_OBS = {
    'quick': {'requests_judged': 260, 'search_replies_judged': 120, 'shares_replies_judged': 75, 'reeval_checks': 600,
              'changes_applied': 620, 'uploads_created_permitted': 290, 'reeval_uploads_unfinished': 570,
              'reeval_requeue_expected': 140, 'reeval_user_aborted_checked': 28, 'phrase_checks': 200,
              'substring_phrases_pushed': 50, 'double_changes': 55, 'judgements_on_moved_files': 140,
              'removals_racing_a_reevaluation': 25, 'subdirectory_adds': 25},
    'thorough': {'requests_judged': 10000, 'search_replies_judged': 4800, 'shares_replies_judged': 3000,
                 'reeval_checks': 24000, 'changes_applied': 24800, 'uploads_created_permitted': 11600,
                 'reeval_uploads_unfinished': 22800, 'reeval_requeue_expected': 5600,
                 'reeval_user_aborted_checked': 1100, 'phrase_checks': 8000, 'substring_phrases_pushed': 2400,
                 'double_changes': 2200, 'judgements_on_moved_files': 5600,
                 'removals_racing_a_reevaluation': 1000, 'subdirectory_adds': 1000},
}
SHARD_TIMEOUT = {'quick': 600, 'thorough': 5400}
SIZES = {'quick': 1200, 'thorough': 180000}
WHAT_FAILS = {
    'search:locked-file-in-normal-results': 'a search reply lists a file among the downloadable results for a user who is not entitled to it',
    'search:excluded-phrase-not-applied': 'a search reply contains a file whose path contains a server-excluded phrase',
    'search:reply-to-blocked-user': 'a user blocked for searches received a search reply',
    'shares:locked-directory-listed': 'files of a directory locked for the asker are listed among the normal ones',
    'shares:reply-to-blocked-user': 'a user blocked for shares received a shares / directory reply',
    'transfer:upload-created': 'an upload object was created for a request that is not permitted',
    'transfer:wrong-reply': 'a request that is not permitted was not answered with the refusal',
    'transfer:bytes-served': 'file bytes were sent for a transfer started while it was not permitted',
    'reeval:': 'after a change of friends / blocks / shared directories an upload is not in the required state',
}

PEOPLE = ('fred', 'lisa', 'stan')
MODES = (EVERYONE, FRIENDS, USERS)
WORDS = ('amber', 'birch', 'cedar')
ASSIGNMENTS = [(a,) for a in MODES] + [(a, b) for a in MODES for b in MODES] + \
    [(a, b, c) for a in MODES for b in MODES for c in MODES]
LAYOUTS = {1: [[None]], 2: [[None, None], [None, 0]],
           3: [[None, None, None], [None, 0, None], [None, 0, 1], [None, 0, 0]]}
#: what a block flag name blocks (the harness' own reading of the flag names)
BLOCKS = {
    'NONE': frozenset(), 'UPLOADS': frozenset({'uploads'}), 'SEARCHES': frozenset({'searches'}),
    'SHARES': frozenset({'shares'}), 'ALL': frozenset({'uploads', 'searches', 'shares'}),
    'SEARCHES|UPLOADS': frozenset({'searches', 'uploads'}), 'SHARES|SEARCHES': frozenset({'shares', 'searches'}),
    'INFO': frozenset(), 'IGNORE': frozenset(),
}
USER_LISTS = (['lisa'], ['lisa'], ['lisa', 'fred'], ['stan'], [], ['lisa', 'stan'])
QUERIES = ('{w}', 'song', 'tune', 'morning song', 'ghost track', '*ning', 'mp3', '{w} -ghost', 'live', 'evening')
PHRASES = ('morning', 'evening_tune', 'ghost track', '{w}', 'song.mp3', 'live', 'zzzz', '{w} morning')
VARIANTS = ('exact', 'exact', 'exact', 'exact', 'upper', 'lower', 'dblsep', 'fwdsep', 'unknown', 'ghost')
REEVAL_WINDOW = 3.0
REASON_SLUG = {'Blocked': 'blocked', 'File not shared': 'file-not-shared'}


def cases(tier: str, seed: int) -> list:
    return [{'seed': seed, 'n': i} for i in range(SIZES[tier])]


# ---------------------------------------------------------------------------
# plan generation (pure, seeded)

def dir_files(word: str) -> list:
    return [['', f'{word.title()} Morning Song.mp3'], ['live', f'{word.upper()} evening_tune.flac'],
            ['', f'{word} ghost track.mp3']]


def prefix_files(word: str) -> list:
    """Siblings of the sub-directory 'live' whose names merely START with its name (file indices 3 and 4)."""
    return [['live_private', f'{word} hidden cut.mp3'], ['', 'live_takes.mp3']]


def _g_flags(g: dict, u: str) -> frozenset:
    return BLOCKS[g['blocked'].get(u, 'NONE')]


def _g_entitled(g: dict, u: str, k: int) -> bool:
    d = g['dirs'][k]
    if not d['shared']:
        return False
    if d['mode'] == FRIENDS:
        return u in g['friends']
    if d['mode'] == USERS:
        return u in d['users']
    return True


def _g_permitted(g: dict, u: str, k: int) -> bool:
    return _g_entitled(g, u, k) and 'uploads' not in _g_flags(g, u)


def _apply_g(g: dict, st: dict):
    k = st['k']
    if k == 'friend':
        (g['friends'].add if st['op'] == '+' else g['friends'].discard)(st['u'])
    elif k == 'block':
        if st['flag'] == 'NONE':
            g['blocked'].pop(st['u'], None)
        else:
            g['blocked'][st['u']] = st['flag']
    elif k == 'dirmode':
        d = g['dirs'][st['d']]
        d['mode'], d['users'] = st['mode'], list(st['users'])
    elif k == 'dirremove':
        g['dirs'][st['d']]['shared'] = False
    elif k == 'diradd':
        d = g['dirs'][st['d']]
        d['shared'], d['mode'], d['users'] = True, st['mode'], list(st['users'])


def _rand_change(rng: random.Random, g: dict, prefer: tuple = ()) -> dict:
    shared = [k for k, d in enumerate(g['dirs']) if d['shared']]
    removed = [k for k, d in enumerate(g['dirs']) if not d['shared']]
    kinds = ['friend', 'friend', 'block', 'block', 'dirmode', 'dirmode'] + list(prefer)
    if removed:
        kinds += ['diradd', 'diradd']
    if shared:
        kinds.append('dirremove')
    kind = rng.choice(kinds)
    if kind in ('dirmode', 'dirremove') and not shared:
        kind = 'friend'
    if kind == 'friend':
        u = rng.choice(PEOPLE)
        op = '-' if u in g['friends'] else '+'
        if rng.random() < 0.1:
            op = '+' if op == '-' else '-'          # a change that changes nothing
        return {'k': 'friend', 'op': op, 'u': u, 'how': rng.choice(['mutate', 'assign'])}
    if kind == 'block':
        return {'k': 'block', 'u': rng.choice(PEOPLE), 'flag': rng.choice(sorted(BLOCKS)),
                'how': rng.choice(['set', 'del', 'assign'])}
    if kind == 'dirmode':
        return {'k': 'dirmode', 'd': rng.choice(shared), 'mode': rng.choice(MODES), 'users': list(rng.choice(USER_LISTS))}
    if kind == 'dirremove':
        return {'k': 'dirremove', 'd': rng.choice(shared), 'rescan': rng.random() < 0.6}
    k = rng.choice(removed)
    return {'k': 'diradd', 'd': k, 'mode': rng.choice(MODES), 'users': list(rng.choice(USER_LISTS)),
            'rescan': rng.random() < 0.7}


def _forbid(rng: random.Random, g: dict, u: str, k: int, rescan: bool = True) -> dict:
    d = g['dirs'][k]
    opts = ['block', 'block', 'dirremove']
    if d['mode'] == FRIENDS:
        opts += ['friend-', 'friend-', 'dirmode']
    elif d['mode'] == USERS:
        opts += ['users-', 'users-', 'dirmode']
    else:
        opts += ['dirmode', 'dirmode']
    c = rng.choice(opts)
    if c == 'dirremove' and not d['shared']:
        c = 'block'
    if c == 'block':
        return {'k': 'block', 'u': u, 'flag': rng.choice(['UPLOADS', 'ALL', 'SEARCHES|UPLOADS']),
                'how': rng.choice(['set', 'assign'])}
    if c == 'friend-':
        return {'k': 'friend', 'op': '-', 'u': u, 'how': rng.choice(['mutate', 'assign'])}
    if c == 'users-':
        return {'k': 'dirmode', 'd': k, 'mode': USERS, 'users': [x for x in d['users'] if x != u]}
    if c == 'dirmode':
        cands = [(USERS, [x for x in rng.choice(USER_LISTS) if x != u])]
        if u not in g['friends']:
            cands.append((FRIENDS, list(d['users'])))
        mode, users = rng.choice(cands)
        return {'k': 'dirmode', 'd': k, 'mode': mode, 'users': users}
    return {'k': 'dirremove', 'd': k, 'rescan': rescan}


#: changes the library is told about at once (event emitted by the shares API); the others (friends, blocks)
#: are found by the user-management poll
SYNC_KINDS = ('dirmode', 'dirremove', 'diradd', 'subadd', 'subremove', 'rescan')


def _pick(rng: random.Random, make, ok, tries: int = 12) -> dict:
    st = make()
    for _ in range(tries):
        if ok(st):
            break
        st = make()
    return st


def _after(g: dict, st: dict) -> dict:
    g2 = {'friends': set(g['friends']), 'blocked': dict(g['blocked']),
          'dirs': [dict(d, users=list(d['users'])) for d in g['dirs']]}
    _apply_g(g2, st)
    return g2


def _permit(rng: random.Random, g: dict, u: str, k: int, orig: dict) -> dict:
    d = g['dirs'][k]
    if 'uploads' in _g_flags(g, u):
        return {'k': 'block', 'u': u, 'flag': rng.choice(['NONE', 'NONE', 'SEARCHES', 'SHARES', 'INFO']),
                'how': rng.choice(['set', 'del', 'assign'])}
    if not d['shared']:
        users = list(orig['users'])
        if orig['mode'] == USERS and u not in users:
            users.append(u)
        mode = orig['mode'] if (orig['mode'] != FRIENDS or u in g['friends']) else EVERYONE
        return {'k': 'diradd', 'd': k, 'mode': mode, 'users': users}
    if d['mode'] == FRIENDS and rng.random() < 0.7:
        return {'k': 'friend', 'op': '+', 'u': u, 'how': rng.choice(['mutate', 'assign'])}
    if d['mode'] == USERS and rng.random() < 0.7:
        return {'k': 'dirmode', 'd': k, 'mode': USERS, 'users': list(d['users']) + [u]}
    return {'k': 'dirmode', 'd': k, 'mode': EVERYONE, 'users': list(d['users'])}


def _request(rng: random.Random, g: dict, u=None, k=None, j=None, v=None) -> dict:
    n = len(g['dirs'])
    return {'k': rng.choice(['queue', 'queue', 'treq']), 'u': u or rng.choice(PEOPLE),
            'd': rng.randrange(n) if k is None else k, 'f': rng.randrange(2) if j is None else j,
            'v': v or rng.choice(VARIANTS)}


def _case_style(rng: random.Random, text: str) -> str:
    style = rng.choice(['lower', 'upper', 'mixed'])
    if style == 'lower':
        return text.lower()
    if style == 'upper':
        return text.upper()
    out = ''.join(ch.upper() if i % 2 == 0 else ch.lower() for i, ch in enumerate(text))
    return out if out != out.lower() else text.title()


def _word_spans(text: str) -> list:
    """(start, end) of the maximal alphanumeric runs of ``text``."""
    spans, start = [], None
    for i, ch in enumerate(text + ' '):
        if ch.isalnum():
            if start is None:
                start = i
        elif start is not None:
            spans.append((start, i))
            start = None
    return spans


def cut_phrase(rng: random.Random, qpath: str):
    """A substring of ``qpath`` (path below the shared directory, backslash separated) that does NOT sit on
    word boundaries at both ends: inside one word (1-3 characters or longer), spanning a space, spanning the
    path separator, or long (several words, cut inside the first and the last).  -> (kind, phrase) or None."""
    spans = _word_spans(qpath)
    kinds = ['inside-short', 'inside', 'span-space', 'span-space', 'span-sep', 'span-sep', 'long']
    rng.shuffle(kinds)
    for kind in kinds:
        if kind in ('inside-short', 'inside'):
            cands = [(a, b) for a, b in spans if b - a >= 4]
            if not cands:
                continue
            a, b = rng.choice(cands)
            n = rng.randint(1, 3) if kind == 'inside-short' else rng.randint(3, b - a - 1)
            i = rng.randint(a + 1, b - n) if b - n >= a + 1 else a + 1
            j = min(i + n, b)
            if i > a or j < b:
                return kind, qpath[i:j]
        elif kind in ('span-space', 'span-sep'):
            sepch = ' ' if kind == 'span-space' else '\\'
            pairs = [(spans[x], spans[x + 1]) for x in range(len(spans) - 1)
                     if qpath[spans[x][1]:spans[x + 1][0]] == sepch
                     and spans[x][1] - spans[x][0] >= 2 and spans[x + 1][1] - spans[x + 1][0] >= 2]
            if not pairs:
                continue
            (a1, b1), (a2, b2) = rng.choice(pairs)
            return kind, qpath[rng.randint(a1 + 1, b1 - 1):rng.randint(a2 + 1, b2 - 1)]
        else:
            if len(spans) < 3:
                continue
            x = rng.randrange(len(spans) - 2)
            y = rng.randrange(x + 2, len(spans))
            (a1, b1), (a2, b2) = spans[x], spans[y]
            if b1 - a1 >= 2 and b2 - a2 >= 2:
                return kind, qpath[rng.randint(a1 + 1, b1 - 1):rng.randint(a2 + 1, b2 - 1)]
    return None


def _phrases(rng: random.Random, g: dict) -> dict:
    """Whole-word phrases and phrases cut inside the words of real paths of the run, any letter case."""
    words = [d['word'] for d in g['dirs']]
    lst, kinds, hits = [], [], []
    for tpl in rng.sample(PHRASES, rng.randint(1, 3)):
        if rng.random() < 0.5:
            word = rng.choice(words)
            j = rng.randrange(3)
            sub, fn = dir_files(word)[j]
            cut = cut_phrase(rng, (sub + '\\' + fn) if sub else fn)
            if cut is not None and cut[1].strip():
                lst.append(_case_style(rng, cut[1]))
                kinds.append(cut[0])
                hits.append(rng.choice([word, ('song', 'tune', 'ghost track')[j]]))
                continue
        lst.append(_case_style(rng, tpl.format(w=rng.choice(words))))
        kinds.append('whole-words')
    return {'k': 'phrases', 'list': lst, 'kinds': kinds, 'hits': hits}


def _search(rng: random.Random, g: dict) -> dict:
    words = [d['word'] for d in g['dirs']]
    return {'k': 'search', 'carrier': rng.choice(['server', 'server', 'filesearch', 'filesearch', 'dist']),
            'u': rng.choice(PEOPLE), 'q': rng.choice(QUERIES).format(w=rng.choice(words))}


def _shares_step(rng: random.Random, g: dict) -> dict:
    if rng.random() < 0.45:
        return {'k': 'shares', 'u': rng.choice(PEOPLE)}
    return {'k': 'dirc', 'u': rng.choice(PEOPLE), 'd': rng.randrange(len(g['dirs'])),
            'sub': rng.choice(['', '', 'live', 'live', 'unknown'])}


def gen_plan(rng: random.Random, n: int) -> dict:
    modes = ASSIGNMENTS[n % len(ASSIGNMENTS)]
    nd = len(modes)
    template = rng.choice(['reeval'] * 8 + ['requests'] * 4 + ['search'] * 4 + ['shares'] * 2 + ['mixed'] * 2 +
                          ['double'] * 5 + ['nested'] * 4 + ['shift'] * 4 + ['prefix'] * 4)
    if template == 'nested' and nd < 3:
        template = 'requests'
    parents = [None, 0, 1] if template == 'nested' else rng.choice(LAYOUTS[nd])
    g = {'friends': set(rng.choice([['fred'], ['fred'], ['fred'], [], ['fred', 'stan'], ['fred', 'lisa', 'stan']])),
         'blocked': {}, 'dirs': []}
    rels = []
    for k in range(nd):
        word = WORDS[k]
        rel = word if parents[k] is None else rels[parents[k]] + '/nest_' + word
        rels.append(rel)
        users = list(rng.choice(USER_LISTS)) if modes[k] == USERS else list(rng.choice([[], ['lisa']]))
        g['dirs'].append({'word': word, 'rel': rel, 'mode': modes[k], 'users': users, 'shared': True})
    for u in PEOPLE:
        if rng.random() < 0.25:
            g['blocked'][u] = rng.choice(['UPLOADS', 'SEARCHES', 'SHARES', 'ALL', 'SEARCHES|UPLOADS', 'INFO'])
    plan = {'template': template, 'slots0': 2, 'behave': {}, 'hold': 120.0, 'ghost': [], 'target_state': None}
    steps: list = []

    def freeze():
        plan['friends'] = sorted(g['friends'])
        plan['blocked'] = dict(g['blocked'])
        plan['dirs'] = [{'word': d['word'], 'rel': d['rel'], 'mode': d['mode'], 'users': list(d['users']),
                         'files': dir_files(d['word']) + (prefix_files(d['word']) if d.get('prefix') else [])}
                        for d in g['dirs']]

    def add(st: dict):
        steps.append(st)
        _apply_g(g, st)

    if template == 'reeval':
        u, k = rng.choice(PEOPLE), rng.randrange(nd)
        d = g['dirs'][k]
        # the upload must be permitted to begin with
        if d['mode'] == FRIENDS:
            g['friends'].add(u)
        elif d['mode'] == USERS and u not in d['users']:
            d['users'].append(u)
        if 'uploads' in _g_flags(g, u):
            g['blocked'].pop(u)
        freeze()
        orig = {'mode': d['mode'], 'users': list(d['users'])}
        state = rng.choice(['QUEUED', 'QUEUED', 'INIT-silent', 'INIT-silent', 'INIT-hang', 'UPLOADING', 'UPLOADING',
                            'PAUSED', 'PAUSED', 'ABORTED-user', 'ABORTED-user', 'COMPLETE'])
        plan['target_state'] = state
        if state in ('QUEUED', 'INIT-hang'):
            plan['slots0'] = 0
        if state == 'INIT-silent':
            plan['behave'][u] = 'silent'
        if state == 'COMPLETE':
            plan['hold'] = 0.2
        j = rng.randrange(2)
        add(_request(rng, g, u, k, j, 'exact'))
        if rng.random() < 0.35:
            others = [(u2, k2) for u2 in PEOPLE for k2 in range(nd) if u2 != u and _g_permitted(g, u2, k2)]
            if others:
                u2, k2 = rng.choice(others)
                add(_request(rng, g, u2, k2, rng.randrange(2), 'exact'))
        if state == 'INIT-hang':
            add({'k': 'hang', 'u': u})
            add({'k': 'slots', 'n': 2})
        elif state == 'PAUSED':
            add({'k': 'pause', 'i': 0})
        elif state == 'ABORTED-user':
            add({'k': 'abort', 'i': 0})
            if rng.random() < 0.5:
                add(_rand_change(rng, g))       # a change that (mostly) leaves the upload permitted
        c1 = _forbid(rng, g, u, k)
        if state == 'QUEUED' and rng.random() < 0.4:
            # the slot limit is raised in the same instant: the queued upload may start before the
            # library has noticed the change (user-management poll)
            c1['then_slots'] = 2
        add(c1)
        r = rng.random()
        if r < 0.3:
            add(_request(rng, g, u, k, j, 'exact'))
        elif r < 0.5:
            add(_rand_change(rng, g))
        add(_permit(rng, g, u, k, orig))
        if len(steps) < 8 and rng.random() < 0.5:
            add(_forbid(rng, g, u, k))
            if len(steps) < 8 and rng.random() < 0.5:
                add(_permit(rng, g, u, k, orig))
    elif template == 'double':
        # two changes in close succession: the first forbids an upload that is being served (its abort takes
        # loop steps: the re-evaluation is suspended), the second forbids / permits another upload meanwhile
        u1, u2 = 'fred', rng.choice(['lisa', 'stan'])
        k1, k2 = rng.randrange(nd), rng.randrange(nd)
        for u, k in ((u1, k1), (u2, k2)):
            d = g['dirs'][k]
            if d['mode'] == FRIENDS:
                g['friends'].add(u)
            elif d['mode'] == USERS and u not in d['users']:
                d['users'].append(u)
            if 'uploads' in _g_flags(g, u):
                g['blocked'].pop(u)
        state2 = rng.choice(['QUEUED', 'UPLOADING', 'UPLOADING', 'ABORTED'])
        plan['target_state'] = 'double:' + state2
        plan['slots0'] = 1 if state2 == 'QUEUED' else 2
        freeze()
        orig2 = {'mode': g['dirs'][k2]['mode'], 'users': list(g['dirs'][k2]['users'])}
        add(_request(rng, g, u1, k1, rng.randrange(2), 'exact'))
        add(_request(rng, g, u2, k2, rng.randrange(2), 'exact'))
        if state2 == 'ABORTED':
            add(_pick(rng, lambda: _forbid(rng, g, u2, k2, rescan=False),
                      lambda st: _g_permitted(_after(g, st), u1, k1) and st['k'] != 'dirremove'))
        for _round in range(rng.choice([1, 1, 2])):
            if not _g_permitted(g, u1, k1):
                break
            want_sync = rng.random() < 0.7
            c1 = _pick(rng, lambda: _forbid(rng, g, u1, k1, rescan=False),
                       lambda st: (_g_permitted(_after(g, st), u2, k2) == _g_permitted(g, u2, k2)
                                   and (not want_sync or st['k'] in SYNC_KINDS)))
            g1 = _after(g, c1)
            if _g_permitted(g1, u2, k2):
                make2 = lambda: _forbid(rng, g1, u2, k2, rescan=False)     # noqa: E731
            else:
                make2 = lambda: _permit(rng, g1, u2, k2, orig2)            # noqa: E731
            # the second change must reach the library while the first is being worked on: at once (shares
            # API), or found by the same poll as the first
            c2 = _pick(rng, make2, lambda st: (not _g_permitted(_after(g1, st), u1, k1)
                                               and (st['k'] in SYNC_KINDS or c1['k'] not in SYNC_KINDS))
                       and not (st['k'] == 'diradd'))
            if c2['k'] == 'diradd':
                c2['rescan'] = False
            gap = ['y', rng.randint(0, 8)] if rng.random() < 0.85 else ['ms', rng.choice([1, 2, 5, 10, 30])]
            steps.append({'k': 'double', 'c1': c1, 'c2': c2, 'gap': gap})
            _apply_g(g, c1)
            _apply_g(g, c2)
            if _round == 0 and len(steps) < 7:
                # make the first upload permitted again for a second round
                add(_permit(rng, g, u1, k1, {'mode': g['dirs'][k1]['mode'], 'users': list(g['dirs'][k1]['users'])}))
    elif template == 'shift':
        # the transfer list shifts under a running re-evaluation: fred has an upload being served (its abort
        # takes loop steps) and further queued ones behind it; an EARLIER entry of the list (another user's
        # aborted / complete / active upload) is removed by the user a few loop steps after the forbidding change
        u1, u0 = 'fred', rng.choice(['lisa', 'stan'])
        k1, k0 = rng.randrange(nd), rng.randrange(nd)
        for u, k in ((u1, k1), (u0, k0)):
            d = g['dirs'][k]
            if d['mode'] == FRIENDS:
                g['friends'].add(u)
            elif d['mode'] == USERS and u not in d['users']:
                d['users'].append(u)
            if 'uploads' in _g_flags(g, u):
                g['blocked'].pop(u)
        kind0 = rng.choice(['aborted', 'complete', 'active'])
        plan['target_state'] = 'shift:' + kind0
        if kind0 == 'complete':
            plan['hold_by_user'] = {u0: 0.2}
        freeze()
        add(_request(rng, g, u0, k0, rng.randrange(2), 'exact'))
        if kind0 == 'aborted':
            add({'k': 'abort', 'i': 0})
        add(_request(rng, g, u1, k1, 0, 'exact'))
        add(_request(rng, g, u1, k1, 1, 'exact'))
        if rng.random() < 0.4:
            add(_request(rng, g, u1, k1, 2, 'exact'))
        if rng.random() < 0.5:
            c1 = {'k': 'block', 'u': u1, 'flag': rng.choice(['UPLOADS', 'ALL', 'SEARCHES|UPLOADS']),
                  'how': rng.choice(['set', 'assign'])}
        else:
            c1 = _forbid(rng, g, u1, k1, rescan=False)
        gap = ['y', rng.randint(0, 8)] if rng.random() < 0.85 else ['ms', rng.choice([1, 2, 5, 10, 30])]
        steps.append({'k': 'double', 'c1': c1, 'c2': {'k': 'remove', 'i': 0}, 'gap': gap})
        _apply_g(g, c1)
        if rng.random() < 0.4:
            add(_permit(rng, g, u1, k1, {'mode': plan['dirs'][k1]['mode'], 'users': list(plan['dirs'][k1]['users'])}))
    elif template == 'prefix':
        # a sub-directory of a (restricted) shared directory becomes a shared directory of its own WITHOUT a
        # rescan: only the files below it change owner, not the siblings whose names start with its name
        restrictive = [k for k, d in enumerate(g['dirs']) if d['mode'] != EVERYONE]
        k = rng.choice(restrictive) if restrictive else rng.randrange(nd)
        g['dirs'][k]['prefix'] = True
        freeze()
        word = g['dirs'][k]['word']
        if rng.random() < 0.25:
            ok = [u for u in PEOPLE if _g_permitted(g, u, k)]
            if ok:
                add(_request(rng, g, rng.choice(ok), k, rng.choice([1, 3, 4]), 'exact'))
        add({'k': 'subadd', 'd': k, 'sub': 'live', 'mode': EVERYONE if rng.random() < 0.7 else rng.choice(MODES),
             'users': list(rng.choice(USER_LISTS)), 'rescan': False})

        def probe():
            r = rng.random()
            u = rng.choice(['stan', 'stan', 'lisa', 'fred'])
            if r < 0.45:
                return {'k': rng.choice(['queue', 'queue', 'treq']), 'u': u, 'd': k, 'f': rng.choice([1, 3, 3, 4, 4]),
                        'v': 'exact'}
            if r < 0.8:
                return {'k': 'search', 'carrier': rng.choice(['server', 'filesearch']), 'u': u,
                        'q': rng.choice(['live', word, 'hidden', 'takes', 'cut', 'mp3'])}
            return {'k': 'shares', 'u': u}
        for _ in range(rng.randint(3, 5)):
            add(probe())
        if len(steps) < 7 and rng.random() < 0.4:
            add(rng.choice([{'k': 'subremove', 'd': k, 'sub': 'live', 'rescan': False}, {'k': 'rescan'}]))
            add(probe())
    elif template == 'nested':
        # A contains B contains C: an inner directory is removed without a rescan, its files belong to the
        # closest remaining parent from then on
        freeze()
        victim = rng.choice([2, 2, 2, 1])
        if rng.random() < 0.3:
            ok = [u for u in PEOPLE if _g_permitted(g, u, victim)]
            if ok:
                add(_request(rng, g, rng.choice(ok), victim, rng.randrange(2), 'exact'))
        add({'k': 'dirremove', 'd': victim, 'rescan': False})
        word = g['dirs'][victim]['word']
        for _ in range(rng.randint(3, 5)):
            r = rng.random()
            if r < 0.45:
                add(_request(rng, g, None, victim, rng.randrange(2), 'exact'))
            elif r < 0.8:
                add({'k': 'search', 'carrier': rng.choice(['server', 'filesearch']), 'u': rng.choice(PEOPLE),
                     'q': rng.choice([word, 'song', 'tune', 'mp3'])})
            else:
                add({'k': 'shares', 'u': rng.choice(PEOPLE)})
        if len(steps) < 7 and rng.random() < 0.4:
            add({'k': 'diradd', 'd': victim, 'mode': rng.choice(MODES), 'users': list(rng.choice(USER_LISTS)),
                 'rescan': rng.random() < 0.5})
            add(_request(rng, g, None, victim, rng.randrange(2), 'exact'))
    else:
        if rng.random() < 0.5:
            plan['ghost'] = sorted(rng.sample(range(nd), rng.randint(1, nd)))
        if rng.random() < 0.3:
            plan['hold'] = rng.choice([0.2, 1.0])
        freeze()
        if template == 'requests':
            for _ in range(rng.randint(5, 8)):
                add(_rand_change(rng, g) if rng.random() < 0.2 else _request(rng, g))
        elif template == 'search':
            hits: list = []

            def search_step():
                st = _search(rng, g)
                if hits and rng.random() < 0.6:
                    st['q'] = rng.choice(hits)
                return st
            if rng.random() < 0.8:
                add(_phrases(rng, g))
                hits = steps[-1]['hits']
            for _ in range(rng.randint(3, 7)):
                if len(steps) >= 8:
                    break
                r = rng.random()
                if r < 0.15:
                    add(_rand_change(rng, g, prefer=('block', 'friend')))
                elif r < 0.3:
                    add(_phrases(rng, g))
                    hits = steps[-1]['hits']
                else:
                    add(search_step())
        elif template == 'shares':
            for _ in range(rng.randint(4, 8)):
                add(_rand_change(rng, g, prefer=('block', 'dirmode')) if rng.random() < 0.2 else _shares_step(rng, g))
        else:
            for _ in range(rng.randint(5, 8)):
                r = rng.random()
                if r < 0.3:
                    add(_rand_change(rng, g))
                elif r < 0.55:
                    add(_request(rng, g))
                elif r < 0.7:
                    add(_search(rng, g))
                elif r < 0.78:
                    add(_phrases(rng, g))
                elif r < 0.9:
                    add(_shares_step(rng, g))
                elif r < 0.95:
                    add({'k': 'abort', 'i': rng.randrange(3)})
                else:
                    add({'k': 'pause', 'i': rng.randrange(3)})
    plan['steps'] = steps
    plan['dist'] = any(s.get('carrier') == 'dist' for s in steps)
    return plan


# ---------------------------------------------------------------------------

def run_case(params: dict) -> dict:
    res = runner.new_result(params['case'])
    seed, n = params['seed'], params['n']
    rng = random.Random(f'{seed}:C08:{n}')
    plan = params['plan'] if 'plan' in params else gen_plan(rng, n)
    tm = TransferMonitor()
    viol: list = []
    sigs_seen: set = set()
    obs: dict = {}
    cover: dict = {}
    trace: list = []
    csigs: set = set()
    decisive = {'n': 0}
    modes_sig = '/'.join(d['mode'][0] + ('^' if '/' in d['rel'] else '') for d in plan['dirs'])
    list_sig = (f"F{plan['friends']}B{sorted(plan['blocked'].items())}"
                f"U{[d['users'] for d in plan['dirs'] if d['mode'] == USERS]}")

    def add(key: str, k: int = 1):
        obs[key] = obs.get(key, 0) + k

    def cov(key: str, value):
        lst = cover.setdefault(key, [])
        if value not in lst:
            lst.append(value)

    async def main(w: World):
        from aioslsk.events import BlockListChangedEvent, FriendListChangedEvent, TransferAddedEvent
        from aioslsk.exceptions import InvalidStateTransition
        from aioslsk.protocol.messages import (
            AddUser, DistributedBranchLevel, DistributedBranchRoot, DistributedSearchRequest, ExcludedSearchPhrases,
            FileSearch, GetUserStatus, PeerDirectoryContentsReply, PeerDirectoryContentsRequest, PeerSearchReply,
            PeerSharesReply, PeerSharesRequest, PeerTransferQueueFailed, PeerTransferReply, PotentialParents,
            RemoveUser, ServerSearchRequest)
        from aioslsk.protocol.primitives import PotentialParent
        from aioslsk.settings import (
            SharedDirectorySettingEntry, TransferLimitSettings, TransfersSettings, UsersSettings)
        from aioslsk.shares.model import DirectoryShareMode
        from aioslsk.user.model import BlockingFlag

        def to_flag(name: str):
            return reduce(lambda a, b: a | b, (BlockingFlag[p] for p in name.split('|')), BlockingFlag.NONE)

        await w.start_server()
        # -- the share on disk, the reference index, the harness' copy of the configuration --------------
        root = os.path.join(w.tmp, 'shares')
        paths, entries = [], []
        model = RefIndex(plan['friends'])
        blocked: dict = dict(plan['blocked'])            # user -> flag name (harness copy)
        for d in plan['dirs']:
            p = os.path.join(root, *d['rel'].split('/'))
            paths.append(p)
            for sub, fn in d['files']:
                os.makedirs(os.path.join(p, sub), exist_ok=True)
                with open(os.path.join(p, sub, fn), 'wb') as fh:
                    fh.write(random.Random(f'{seed}:{fn}').randbytes(300 + 7 * len(fn)))
        for d, p in zip(plan['dirs'], paths):
            entries.append(SharedDirectorySettingEntry(
                path=p, share_mode=DirectoryShareMode(d['mode']), users=list(d['users'])))
            model.add(p, d['mode'], list(d['users']))
        model.scan_all()
        settings = w.make_settings(
            'up', shared=entries,
            users=UsersSettings(friends=set(plan['friends']), blocked={u: to_flag(f) for u, f in blocked.items()}),
            transfers=TransfersSettings(limits=TransferLimitSettings(upload_slots=plan['slots0'])))
        up = await w.add_client('up', settings, scan=True)
        client = up.client
        mgr = client.transfers
        added: list = []
        up.listen(TransferAddedEvent, lambda ev: added.append(ev.transfer))

        def real_map() -> dict:
            out = {}
            for sd in client.shares.shared_directories:
                for item in sd.items:
                    out[item.get_remote_path()] = os.path.normpath(item.get_absolute_path())
            return out

        def self_check(where: str):
            if set(real_map().values()) != set(model.by_abspath()):
                raise RuntimeError(f'harness self-check ({where}): scanned index differs from the reference index '
                                   f'(C07 judges that)')
        self_check('initial scan')
        original = {}                                    # (dir, file) -> remote path after the initial scan
        by_abs0 = {ap: rp for rp, ap in real_map().items()}
        alias_of = {}
        for k, (d, p) in enumerate(zip(plan['dirs'], paths)):
            alias_of[k] = client.shares.get_shared_directory(p).alias
            for j, (sub, fn) in enumerate(d['files']):
                original[(k, j)] = by_abs0[os.path.normpath(os.path.join(p, sub, fn))]
        for k in plan['ghost']:
            sub, fn = plan['dirs'][k]['files'][2]
            os.remove(os.path.join(paths[k], sub, fn))

        # -- oracle -------------------------------------------------------------------------------------
        def judge(user: str, path: str, disk: bool = True) -> tuple:
            """(E, U, why-not-permitted or None) for the configuration in force now."""
            up_blocked = 'uploads' in BLOCKS[blocked.get(user, 'NONE')]
            ap = real_map().get(path)
            why_e = None
            if ap is None:
                ent, why_e = False, 'unknown-path'
            else:
                it = model.by_abspath().get(ap)
                if it is None:
                    return None, None, 'unmodelled'
                ent = model.entitled(user, it.owner)
                if it.moved:
                    add('judgements_on_moved_files')      # handed over by add / remove without a rescan
                if not ent:
                    why_e = 'locked'
                elif disk and not os.path.exists(ap):
                    why_e = 'deleted-file'
            why = 'blocked' if up_blocked else why_e
            return ent, (ent and not up_blocked and why_e is None), why

        def violate(sig: str, **detail):
            if sig in sigs_seen:
                return
            sigs_seen.add(sig)
            detail.setdefault('t', round(w.now, 3))
            detail.setdefault('config', {
                'friends': sorted(model.friends), 'blocked': dict(blocked),
                'dirs': [{'rel': plan['dirs'][k]['rel'], 'shared': paths[k] in model.dirs,
                          'mode': model.dirs[paths[k]].mode if paths[k] in model.dirs else None,
                          'users': list(model.dirs[paths[k]].users) if paths[k] in model.dirs else None}
                         for k in range(len(paths))]})
            detail.setdefault('trace', trace[-14:])
            viol.append((sig, detail))

        # -- scripted users ------------------------------------------------------------------------------
        peers, dls = {}, {}
        hang_ports: set = set()
        for name in PEOPLE:
            peer = await w.add_peer(name, obf=False)
            peers[name] = peer
            dl = Downloader(w, peer, 'up', up.port, random.Random(f'{seed}:{n}:{name}'))
            dl.default['hold'] = (plan.get('hold_by_user') or {}).get(name, plan['hold'])
            if plan['behave'].get(name) == 'silent':
                dl.default['reply'] = 'silent'
            dls[name] = dl
        dpar = None
        plink = None
        if plan['dist']:
            dpar = await w.add_peer('dpar', obf=False)

        def planner(node, host, port, attempt):
            plan_ = ConnPlan(latency=w.net.rng.uniform(0.001, 0.03))
            if node == 'up' and port in hang_ports:
                plan_.connect = 'hang'
            return plan_
        w.net.planner = planner
        await settle(0.3)
        if dpar is not None:
            w.server.push('up', PotentialParents.Response(entries=[PotentialParent('dpar', dpar.ip, dpar.port)]))
            await settle(0.5)
            dlinks = [l for l in dpar.links if l.typ == 'D']
            if dlinks:
                dlinks[-1].send(DistributedBranchLevel.Request(0), DistributedBranchRoot.Request('dpar'))
                await settle(0.5)
                if client.distributed_network.parent is not None:
                    plink = dlinks[-1]

        # -- transfers started while not permitted ---------------------------------------------------------
        starts: list = []
        clock = {'last_change': -1000.0}
        user_aborted: dict = {}            # id(upload) -> upload: aborted through the API by the harness

        def on_edge(transfer, old, new):
            if not transfer.is_upload() or new != 'INITIALIZING':
                return
            try:
                _e, perm, why = judge(transfer.username, transfer.remote_path, disk=False)
            except Exception:  # noqa  never raise into the library
                perm, why = None, 'unmodelled'
            starts.append({'t': w.now, 'u': transfer.username, 'p': transfer.remote_path, 'permitted': perm,
                           'why': why, 'in_window': w.now - clock['last_change'] <= REEVAL_WINDOW + 1e-6})
        tm.edge_hooks.append(on_edge)

        def uploads() -> list:
            return [t for t in mgr.transfers if t.is_upload()]

        ticket = {'v': 7000 + n % 1000}

        def next_ticket() -> int:
            ticket['v'] += 1
            return ticket['v']

        def variant_path(st: dict) -> str:
            k, j, v = st['d'], st['f'], st['v']
            if v == 'ghost':
                j = 2
            sub, fn = plan['dirs'][k]['files'][j]
            ap = os.path.normpath(os.path.join(paths[k], sub, fn))
            cur = {a: r for r, a in real_map().items()}.get(ap)
            p = cur or original[(k, j)]
            if v == 'upper':
                return p.upper()
            if v == 'lower':
                return p.lower()
            if v == 'dblsep':
                return p.replace('\\', '\\\\', 1)
            if v == 'fwdsep':
                return p.replace('\\', '/')
            if v == 'unknown':
                return p[:-4] + ' remix' + p[-4:]
            return p

        phrases_now: list = []

        # -- steps ---------------------------------------------------------------------------------------
        async def do_request(st: dict):
            u = st['u']
            dl = dls[u]
            path = variant_path(st)
            ent, perm, why = judge(u, path)
            if why == 'unmodelled':
                add('unmodelled_paths')
                return
            kind = 'queue' if st['k'] == 'queue' else 'transfer-request'
            mark_f, mark_a = len(peers[u].all_frames), len(added)
            existing = [t.state.VALUE.name for t in uploads() if t.username == u and t.remote_path == path]
            for t in uploads():
                # a fresh PERMITTED request of the downloader is outside 'stays aborted after a configuration change'
                if perm and t.username == u and t.remote_path == path:
                    user_aborted.pop(id(t), None)
            tk = next_ticket()
            try:
                if kind == 'queue':
                    await dl.queue(path)
                else:
                    await dl.request_upload(path, tk)
            except (ConnectionError, OSError) as exc:
                trace.append((round(w.now, 3), 'request-not-sent', u, repr(exc)))
                add('requests_not_sent')
                return
            await settle(0.5)
            frames = [m for (_t, _l, m) in peers[u].all_frames[mark_f:]]
            new = [t for t in added[mark_a:] if t.is_upload()]
            trace.append((round(w.now, 3), kind, u, st['v'], path, 'permitted' if perm else why,
                          f'created={len(new)}', [type(m).__qualname__.split('.')[0] for m in frames][:4]))
            cov('request_variants', f"{st['v']}:{'permitted' if perm else why}")
            if perm:
                add('requests_permitted')
                if new or existing:
                    add('uploads_created_permitted')
                return
            add('requests_judged')
            cov('request_refusal_reasons', f'{why}:{kind}')
            decisive['n'] += 1
            info = {'user': u, 'path': path, 'variant': st['v'], 'why': why, 'existing_upload': existing,
                    'frames_received': [repr(m)[:160] for m in frames][:5]}
            if new:
                violate(f'transfer:upload-created:{why}:{kind}', created=[repr(t)[:200] for t in new], **info)
            if kind == 'queue':
                ok = any(isinstance(m, PeerTransferQueueFailed.Request) and m.filename == path for m in frames)
            else:
                reps = [m for m in frames if isinstance(m, PeerTransferReply.Request) and m.ticket == tk]
                ok = bool(reps) and all(not m.allowed for m in reps)
            if not ok:
                violate(f'transfer:wrong-reply:{why}:{kind}', **info)

        async def do_search(st: dict):
            u, q, carrier = st['u'], st['q'], st['carrier']
            if carrier == 'dist' and plink is None:
                carrier = 'server'
            tk = next_ticket()
            marks = {name: len(p.all_frames) for name, p in peers.items()}
            s_blocked = 'searches' in BLOCKS[blocked.get(u, 'NONE')]
            if carrier == 'server':
                w.server.push('up', ServerSearchRequest.Response(
                    distributed_code=3, unknown=0x31, username=u, ticket=tk, query=q))
            elif carrier == 'filesearch':
                w.server.push('up', FileSearch.Response(username=u, ticket=tk, query=q))
            else:
                plink.send(DistributedSearchRequest.Request(0x31, u, tk, q))
            await settle(1.0)
            replies = []
            for name, p in peers.items():
                for (_t, _l, m) in p.all_frames[marks[name]:]:
                    if isinstance(m, PeerSearchReply.Request) and m.ticket == tk:
                        replies.append((name, m))
            add('searches_sent')
            cov('search_carriers', carrier)
            trace.append((round(w.now, 3), 'search', carrier, u, q, 'blocked' if s_blocked else '-',
                          [(nm, len(m.results), len(m.locked_results or [])) for nm, m in replies]))
            if s_blocked:
                add('searches_by_blocked_users')
                decisive['n'] += 1
            for name, m in replies:
                add('search_replies_judged')
                decisive['n'] += 1
                res_paths = [f.filename for f in m.results]
                lck_paths = [f.filename for f in (m.locked_results or [])]
                info = {'asker': u, 'received_by': name, 'carrier': carrier, 'query': q, 'results': res_paths,
                        'locked_results': lck_paths, 'excluded_phrases_sent': list(phrases_now)}
                if s_blocked:
                    violate('search:reply-to-blocked-user', **info)
                for p_ in res_paths:
                    ent, _perm, why = judge(u, p_, disk=False)
                    if why == 'unmodelled' or why == 'unknown-path':
                        add('result_paths_not_in_index')
                        continue
                    add('result_files_judged')
                    if not ent:
                        violate('search:locked-file-in-normal-results', file=p_, **info)
                if lck_paths:
                    add('search_replies_with_locked_results')
                for p_ in res_paths + lck_paths:
                    # below the alias component: the alias stands for the local location of the shared directory
                    # (random letters; a match through it would be an artefact of the run)
                    below = p_.split('\\', 1)[1] if '\\' in p_ else p_
                    for ph in phrases_now:
                        add('phrase_checks')
                        if ph.lower() in below.lower():
                            kind = 'case' if ph != ph.lower() else 'same-case'
                            violate(f'search:excluded-phrase-not-applied:{kind}', file=p_, phrase=ph, **info)

        async def do_phrases(st: dict):
            aliases = ['@@' + a for a in alias_of.values()]
            lst = [ph for ph in st['list'] if ph and not any(ph.lower() in a.lower() for a in aliases)]
            w.server.push('up', ExcludedSearchPhrases.Response(lst))
            await settle(0.2)
            phrases_now[:] = lst
            for ph in lst:
                cov('phrase_cases', 'lower' if ph == ph.lower() else ('upper' if ph == ph.upper() else 'mixed'))
            for kind_, ph in zip(st.get('kinds') or [], st['list']):
                if ph in lst:
                    cov('phrase_kinds', kind_)
                    if kind_ != 'whole-words':
                        add('substring_phrases_pushed')
            trace.append((round(w.now, 3), 'phrases', lst))
            add('phrase_pushes')

        def judge_listing(u: str, kind: str, dirs_, info: dict):
            for dd in dirs_:
                for f in dd.files:
                    p_ = dd.name + '\\' + f.filename
                    ent, _perm, why = judge(u, p_, disk=False)
                    if why in ('unmodelled', 'unknown-path'):
                        add('listed_paths_not_in_index')
                        continue
                    add('listed_files_judged')
                    if not ent:
                        violate(f'shares:locked-directory-listed:{kind}', file=p_, **info)

        async def do_shares(st: dict):
            u = st['u']
            sh_blocked = 'shares' in BLOCKS[blocked.get(u, 'NONE')]
            mark = len(peers[u].all_frames)
            try:
                link = await dls[u].connect()
            except (ConnectionError, OSError):
                add('requests_not_sent')
                return
            if st['k'] == 'shares':
                kind, cls = 'shares-reply', PeerSharesReply.Request
                link.send(PeerSharesRequest.Request())
                asked = None
            else:
                kind, cls = 'directory-contents', PeerDirectoryContentsReply.Request
                k = st['d']
                asked = '@@' + alias_of[k]
                if st['sub'] == 'live':
                    asked += '\\live'
                elif st['sub'] == 'unknown':
                    asked += '\\nothing here'
                link.send(PeerDirectoryContentsRequest.Request(next_ticket(), asked))
            await settle(0.5)
            replies = [m for (_t, _l, m) in peers[u].all_frames[mark:] if isinstance(m, cls)]
            add('shares_requests_sent')
            trace.append((round(w.now, 3), kind, u, asked, 'blocked' if sh_blocked else '-', len(replies)))
            if sh_blocked:
                add('shares_requests_by_blocked_users')
                decisive['n'] += 1
            for m in replies:
                add('shares_replies_judged')
                decisive['n'] += 1
                cov('shares_reply_kinds', kind)
                listing = [(dd.name, [f.filename for f in dd.files]) for dd in m.directories]
                info = {'asker': u, 'asked_directory': asked, 'normal_directories': listing[:12]}
                if kind == 'shares-reply':
                    info['locked_directories'] = [(dd.name, [f.filename for f in dd.files])
                                                  for dd in (m.locked_directories or [])][:12]
                if sh_blocked:
                    violate(f'shares:reply-to-blocked-user:{kind}', **info)
                judge_listing(u, kind, m.directories, info)

        def tracked_users() -> list:
            last = {}
            for _t, u_, m_ in w.server.frames:
                if u_ == 'up' and isinstance(m_, (AddUser.Request, RemoveUser.Request)):
                    last[m_.username] = m_
            return [u_ for u_, m_ in last.items() if isinstance(m_, AddUser.Request) and u_ in PEOPLE]

        noticed = asyncio.Event()      # the library has found a change of the friends / block list (its poll)
        up.listen(FriendListChangedEvent, lambda ev: noticed.set())
        up.listen(BlockListChangedEvent, lambda ev: noticed.set())

        async def apply_change(st: dict):
            """Writes one configuration change into the client and into the harness' copy; returns its label
            (None: not applicable in the current configuration)."""
            kind = st['k']
            ck = kind
            if kind == 'friend':
                ck = 'friend' + st['op']
                cur = set(settings.users.friends)
                (cur.add if st['op'] == '+' else cur.discard)(st['u'])
                if st['how'] == 'assign':
                    settings.users.friends = cur
                else:
                    (settings.users.friends.add if st['op'] == '+' else settings.users.friends.discard)(st['u'])
                model.friends = set(cur)
            elif kind == 'block':
                ck = 'block:' + st['flag']
                if st['how'] == 'assign':
                    nb = dict(settings.users.blocked)
                    if st['flag'] == 'NONE':
                        nb.pop(st['u'], None)
                    else:
                        nb[st['u']] = to_flag(st['flag'])
                    settings.users.blocked = nb
                elif st['flag'] == 'NONE' and st['how'] == 'del':
                    settings.users.blocked.pop(st['u'], None)
                else:
                    settings.users.blocked[st['u']] = to_flag(st['flag'])
                if st['flag'] == 'NONE':
                    blocked.pop(st['u'], None)
                else:
                    blocked[st['u']] = st['flag']
            elif kind == 'dirmode':
                p = paths[st['d']]
                if p not in model.dirs:
                    trace.append((round(w.now, 3), 'skipped', st))
                    return None
                ck = f"dirmode:{model.dirs[p].mode}->{st['mode']}"
                client.shares.update_shared_directory(p, share_mode=DirectoryShareMode(st['mode']), users=list(st['users']))
                model.update(p, st['mode'], list(st['users']))
            elif kind == 'dirremove':
                p = paths[st['d']]
                if p not in model.dirs:
                    trace.append((round(w.now, 3), 'skipped', st))
                    return None
                client.shares.remove_shared_directory(p)
                model.remove(p)             # documented: the files go to the closest remaining parent, else vanish
                if st.get('rescan', True):
                    await up.call(client.shares.scan())
                    model.scan_all()
                else:
                    ck = 'dirremove-norescan'
                self_check('after remove')
            elif kind == 'diradd':
                p = paths[st['d']]
                if p in model.dirs:
                    trace.append((round(w.now, 3), 'skipped', st))
                    return None
                client.shares.add_shared_directory(p, share_mode=DirectoryShareMode(st['mode']), users=list(st['users']))
                model.add(p, st['mode'], list(st['users']))   # documented: takes over the closest parent's files below it
                if st.get('rescan', True):
                    await up.call(client.shares.scan())
                    model.scan_all()
                else:
                    ck = 'diradd-norescan'
                self_check('after add')
                alias_of[st['d']] = client.shares.get_shared_directory(p).alias
            elif kind == 'subadd':
                # a sub-directory of shared directory d becomes a shared directory of its own
                p = os.path.join(paths[st['d']], st['sub'])
                if p in model.dirs or paths[st['d']] not in model.dirs:
                    trace.append((round(w.now, 3), 'skipped', st))
                    return None
                client.shares.add_shared_directory(p, share_mode=DirectoryShareMode(st['mode']), users=list(st['users']))
                model.add(p, st['mode'], list(st['users']))
                ck = 'subadd-norescan'
                add('subdirectory_adds')
                if st.get('rescan', True):
                    await up.call(client.shares.scan())
                    model.scan_all()
                    ck = 'subadd'
                self_check('after adding a sub-directory')
            elif kind == 'subremove':
                p = os.path.join(paths[st['d']], st['sub'])
                if p not in model.dirs:
                    trace.append((round(w.now, 3), 'skipped', st))
                    return None
                client.shares.remove_shared_directory(p)
                model.remove(p)
                ck = 'subremove-norescan'
                if st.get('rescan', True):
                    await up.call(client.shares.scan())
                    model.scan_all()
                    ck = 'subremove'
                self_check('after removing a sub-directory')
            elif kind == 'rescan':
                await up.call(client.shares.scan())
                model.scan_all()
                self_check('after rescan')
            else:
                raise RuntimeError(f'not a change: {st}')
            return ck

        def snapshot() -> dict:
            return {id(t): (t.state.VALUE.name, t.abort_reason) for t in uploads()}

        async def do_change(st: dict):
            before = snapshot()
            ck = await apply_change(st)
            if ck is None:
                return
            clock['last_change'] = w.now
            if st.get('then_slots') is not None:
                settings.transfers.limits.upload_slots = st['then_slots']
                for u_ in tracked_users():
                    w.server.push('up', GetUserStatus.Response(u_, 2, False))
                add('changes_racing_a_free_slot')
            add('changes_applied')
            cov('change_kinds', ck.split(':')[0])
            trace.append((round(w.now, 3), 'change', ck, {k_: v for k_, v in st.items() if k_ != 'k'},
                          [(t.username,) + before.get(id(t), ('?', None)) for t in uploads()]))
            await settle(REEVAL_WINDOW)
            reeval(before, ck, st)

        async def do_double(st: dict):
            """Two changes in close succession; everything is judged 3 s after the second."""
            c1, c2, gap = st['c1'], st['c2'], st['gap']
            before = snapshot()
            noticed.clear()
            ck1 = await apply_change(c1)
            if ck1 is not None and c1['k'] not in SYNC_KINDS and (c2['k'] in SYNC_KINDS or c2['k'] == 'remove'):
                # the second change is to arrive while the library works on the first: wait until its poll
                # has found the first one
                try:
                    await asyncio.wait_for(noticed.wait(), 1.5)
                except asyncio.TimeoutError:
                    add('double_first_change_not_noticed')
            if gap[0] == 'y':
                await yields(gap[1])
            else:
                await asyncio.sleep(gap[1] / 1000.0)
            mid = snapshot()
            if c2['k'] == 'remove':
                # the user removes an earlier entry of the transfer list while the first change is worked on
                ups = uploads()
                ck2 = None
                if ups:
                    victim = ups[c2['i'] % len(ups)]
                    await up.call(mgr.remove(victim))
                    user_aborted.pop(id(victim), None)
                    ck2 = 'user-remove'
                    add('removals_racing_a_reevaluation')
                n_changes = int(ck1 is not None)
            else:
                ck2 = await apply_change(c2)
                n_changes = int(ck1 is not None) + int(ck2 is not None)
            clock['last_change'] = w.now
            add('changes_applied', n_changes)
            add('double_changes')
            for ck_ in (ck1, ck2):
                if ck_ is not None and ck_ != 'user-remove':
                    cov('change_kinds', ck_.split(':')[0])
            cov('double_gaps', f'{gap[0]}{gap[1]}')
            ck = f'double:{ck1}+{ck2}'
            trace.append((round(w.now, 3), 'double-change', ck1, c1, gap, ck2, c2,
                          [(t.username,) + before.get(id(t), ('?', None)) + (mid.get(id(t), ('?',))[0],)
                           for t in uploads()]))
            await settle(REEVAL_WINDOW)
            reeval(before, ck, st)

        def reeval(before: dict, ck: str, st: dict):
            # ---- re-evaluation ------------------------------------------------------------------------
            for t in uploads():
                b = before.get(id(t))
                if b is None:
                    continue
                add('reeval_checks')
                state, reason = t.state.VALUE.name, t.abort_reason
                s_before = b[0] if b[0] != 'ABORTED' else f"ABORTED({REASON_SLUG.get(b[1], 'requested' if b[1] == 'Requested' else b[1])})"
                cov('upload_states_at_change', s_before)
                if state in ('COMPLETE', 'FAILED'):
                    add('reeval_uploads_finished')
                    continue
                ent, perm, why = judge(t.username, t.remote_path, disk=False)
                if why == 'unmodelled':
                    add('unmodelled_paths')
                    continue
                add('reeval_uploads_unfinished')
                decisive['n'] += 1
                csigs.add(f'{modes_sig}|{list_sig}|{s_before}|{ck}')
                up_blocked = 'uploads' in BLOCKS[blocked.get(t.username, 'NONE')]
                info = {'user': t.username, 'path': t.remote_path, 'state_when_change_landed': s_before,
                        'state_now': state, 'abort_reason_now': reason, 'change': st, 'entitled': ent,
                        'blocked_for_uploads': up_blocked}
                cov('reeval_outcomes', f"{s_before}->{state}{'(' + str(reason) + ')' if state == 'ABORTED' else ''}:"
                                       f"{'permitted' if perm else why}")
                if id(t) in user_aborted or b == ('ABORTED', 'Requested'):
                    # remembered by the harness: the library's own bookkeeping of the reason is not trusted
                    add('reeval_user_aborted_checked')
                    if state != 'ABORTED':
                        violate('reeval:user-abort-undone', **info)
                    continue
                if not perm:
                    add('reeval_not_permitted_checked')
                    if state != 'ABORTED':
                        violate(f'reeval:not-aborted:{why}:{b[0]}', **info)
                    else:
                        allowed = set()
                        if up_blocked:
                            allowed.add('Blocked')
                        if not ent:
                            allowed.add('File not shared')
                        if reason not in allowed:
                            violate(f'reeval:wrong-abort-reason:{why}', allowed=sorted(allowed), **info)
                else:
                    add('reeval_permitted_checked')
                    if b[0] == 'ABORTED' and b[1] in REASON_SLUG:
                        add('reeval_requeue_expected')
                    if state == 'ABORTED' and reason in REASON_SLUG:
                        violate(f'reeval:not-requeued-after-permitted-again:{REASON_SLUG[reason]}', **info)

        async def do_user_action(st: dict):
            ups = uploads()
            if not ups:
                trace.append((round(w.now, 3), 'skipped', st))
                return
            t = ups[st['i'] % len(ups)]
            s0 = t.state.VALUE.name
            try:
                await up.call(mgr.abort(t) if st['k'] == 'abort' else mgr.pause(t))
                add('user_actions')
                if st['k'] == 'abort':
                    user_aborted[id(t)] = t
            except InvalidStateTransition:
                add('user_actions_refused')
            trace.append((round(w.now, 3), st['k'], t.username, s0, '->', t.state.VALUE.name, t.abort_reason))
            await settle(0.3)

        async def do_slots(st: dict):
            settings.transfers.limits.upload_slots = st['n']
            # the limit itself wakes nobody up: a status report for a user the client follows does
            for u in tracked_users():
                w.server.push('up', GetUserStatus.Response(u, 2, False))
            trace.append((round(w.now, 3), 'slots', st['n']))
            await settle(0.5)

        async def do_hang(st: dict):
            u = st['u']
            hang_ports.add(peers[u].port)
            peers[u].on_connect_to_peer = lambda msg: None
            dl = dls[u]
            if dl.link is not None:
                dl.link.close()
            trace.append((round(w.now, 3), 'hang', u))
            await settle(0.3)

        for st in plan['steps']:
            k = st['k']
            cov('step_kinds', k)
            if k in ('queue', 'treq'):
                await do_request(st)
            elif k == 'search':
                await do_search(st)
            elif k == 'phrases':
                await do_phrases(st)
            elif k in ('shares', 'dirc'):
                await do_shares(st)
            elif k in ('friend', 'block', 'dirmode', 'dirremove', 'diradd', 'subadd', 'subremove', 'rescan'):
                await do_change(st)
            elif k == 'double':
                await do_double(st)
            elif k in ('abort', 'pause'):
                await do_user_action(st)
            elif k == 'slots':
                await do_slots(st)
            elif k == 'hang':
                await do_hang(st)
            else:
                raise RuntimeError(f'unknown step {st}')
        await settle(2.0)

        # -- bytes on file connections of transfers started while not permitted ----------------------------
        for u, dl in dls.items():
            for (t_link, link, filename) in dl.file_links:
                if filename is None:
                    continue
                stream = link.conn.stream('a2b', delivered=False)
                if len(stream) < 4:
                    continue
                n0 = 4 + int.from_bytes(stream[:4], 'little')
                payload = max(0, len(stream) - n0 - 4)
                add('file_connections_judged')
                add('payload_bytes_seen', payload)
                cands = [s for s in starts if s['u'] == u and s['p'] == filename and s['t'] <= t_link + 1e-9]
                if not cands:
                    continue
                s = cands[-1]
                if s['permitted'] is False and payload > 0:
                    if s['in_window']:
                        add('starts_inside_reeval_window')
                    else:
                        violate(f"transfer:bytes-served:{s['why']}", user=u, path=filename, payload_bytes=payload,
                                started_at=round(s['t'], 3), last_change_at=round(clock['last_change'], 3))
        add('upload_starts_observed', len(starts))
        final = [(t.username, t.remote_path, t.state.VALUE.name, t.abort_reason) for t in uploads()]
        dead = up.dead_background_tasks()
        tm.edge_hooks.clear()
        await w.stop_clients()
        return {'final': final, 'dead': dead, 'dist_parent': plink is not None}

    out = run_world(f'{seed}:C08:{n}', main, wall_timeout=90, monitors=[tm])
    tm.deactivate()
    if out.inconclusive:
        res['inconclusive'] = out.inconclusive
        return res
    for sig, detail in viol:
        runner.violation(res, sig, **detail)
    for sig, detail in safety_net_violations(out):
        runner.violation(res, 'safety:' + sig, **detail, trace=trace[-14:])
    for dtask in (out.result or {}).get('dead', []):
        if not dtask['cancelled']:
            runner.violation(res, f"safety:background-task-died:{dtask['task']}", detail=dtask, trace=trace[-14:])
    for k, v in obs.items():
        runner.add_obs(res, k, v)
    runner.add_obs(res, 'histories')
    runner.add_obs(res, 'passive_c03_reports', len(tm.violations))
    for k, vals in cover.items():
        for v in vals:
            runner.add_cover(res, k, v)
    runner.add_cover(res, 'templates', plan['template'])
    runner.add_cover(res, 'mode_assignments', modes_sig)
    if plan.get('target_state'):
        runner.add_cover(res, 'target_states', plan['target_state'])
    if decisive['n']:
        if csigs:
            res['csigs'].extend(sorted(csigs))
        else:
            res['csigs'].append(f"{modes_sig}|{list_sig}|-|{[s['k'] for s in plan['steps']]}")
    res['sample'] = {'params': {k: v for k, v in params.items() if k != 'plan'}, 'plan': plan,
                     'result': out.result, 'trace': trace[:30]}
    return res
