"""C07 — a search over the shares returns exactly the matching files (DESIGN §4 C07).

One case = one seeded history over a real temporary directory tree and a real
``SharesManager``; the reference index / reference predicate live in
``vf.sharesmodel``.
"""
from __future__ import annotations

import asyncio
import logging
import os
import random
import shutil
import tempfile
import time
from collections import Counter
from typing import Optional

from .. import runner
from ..sharesmodel import (EVERYONE, FRIENDS, USERS, RefIndex, is_file_on_disk, is_under, parse_query, split_words,
                           unstatable_entries)

ID = 'C07'
LEVEL = 'exploration'
QUICK_SCALE = 3      # the quick tier was enlarged by this factor after MIN_OBS['quick'] was measured
RULE = (
    "One case = one seeded history (<= 8 operations, the last one a full scan()) over a real temp directory tree "
    "(<= 30 files, 2-4 levels, names from a per-case word pool with suffix-sharing words song/long/along, "
    "live/alive/olive, 01/101, accents, CJK, mixed case, separators space _ - . ( ) [ ] ' &) and a real "
    "SharesManager. Operations: add_shared_directory (first/child/parent/middle/sibling, EVERYONE/FRIENDS/USERS), "
    "remove, update, scan_directory_files, scan, disk mutations (create/delete/touch/rename/new subdir; in ~1/3 of "
    "the initial trees and of the disk operations also a directory entry that is listed but cannot be stat'ed - a "
    "dangling symlink or a symlink loop with a music-like name, placed where regular files are listed after it in "
    "os.scandir order: a scan has to skip exactly that entry and keep the rest of the directory), "
    "load_from_settings after editing settings.shares.directories, SharesShelveCache write + load_data into a new "
    "manager. After every operation 5-20 queries built from the tree's own words (exact words, non-word "
    "substrings, wildcard suffixes shared by several words, punctuated spans, mixed case, excludes, 2-4 term "
    "mixes, junk terms), max_results 1..100, with and without a username. Oracle: visible+locked of "
    "SharesManager.query == files selected by the character-scanning reference predicate from the reference index "
    "(if more than max_results match: a subset of exactly max_results); index == reference index (after a full "
    "scan: == walk of the disk, innermost shared directory owns, exactly once); get_stats() == counts of the real "
    "index and of the model; locked iff the owning directory's mode excludes the user. NOT judged: (a) queries "
    "without include/wildcard term; (b) entries moved between a parent and a child shared directory by add/remove "
    "and not yet rescanned: the statement does not say which directory their query path is relative to, both "
    "readings are accepted and the folder count is not judged in such states (file count is); (c) entries of a "
    "nested directory dropped by load_from_settings until the next scan of that region (dontcare); (d) the fate "
    "of moved-unscanned entries after a cache round trip beyond one report (index:cache-roundtrip:moved-unscanned). "
    "Signature suffixes name the mechanism and are labels only (computed after the verdict, partly by looking at "
    "the real term map): wildcard-multi-suffix (a wildcard whose leading word part ends >= 2 different live "
    "words), wildcard-stale-term-key (same, but the second word is a term-map key whose entries are gone, only "
    "in histories with a removed directory), readded-directory (entry lies under a directory that was removed and "
    "added again, and is absent by identity from the term map / refers to the old directory object), "
    "unindexed-item (a returned entry is held by no current shared directory), moved-unscanned, partial-op (index "
    "judged between partial operations). A case is non-trivial when at least one judged query had a non-empty "
    "expected set; distinct = (abstract operation sequence, set of query kinds with non-empty expectation).")
ASSUMPTIONS = [
    "alphabet restricted to characters whose str.lower() is 1:1 and for which str.isalnum() equals [^\\W_] "
    "(ASCII, é É ü Ü ñ Ñ, CJK ideographs); NFC file names",
    "a term containing punctuation is matched as the whole term string with word boundaries at its two ends only",
    "the real file system of the temp dir is the disk truth (os.walk, Linux, case-sensitive); a listed "
    "non-directory entry is a file on disk iff os.stat succeeds on it; the only symlinks generated are dangling "
    "ones and self-loops (how symlinks to real files or directories are shared is outside the statement)",
    "attribute scanning (mutagen) is executed by scan() but its results are not judged",
    "between scans the index is the last scanned snapshot: disk mutations do not change the expectation until "
    "the region is rescanned",
    "the harness does not keep references to removed SharedDirectory objects and does not force a GC",
]
MIN_OBS = {'quick': {'queries_judged': 20000, 'queries_nonempty': 7000, 'index_checks': 4000, 'stats_checks': 4000,
                     'scanned_dirs_with_file_listed_after_unstatable': 400},
           'thorough': {'queries_judged': 400000, 'queries_nonempty': 130000, 'index_checks': 80000,
                        'stats_checks': 80000, 'scanned_dirs_with_file_listed_after_unstatable': 30000}}
SHARD_TIMEOUT = {'quick': 600, 'thorough': 5400}
WHAT_FAILS = {
    'query:missing:wildcard-multi-suffix': "a wildcard term whose suffix ends >= 2 different indexed words returns "
                                           "only files containing all of those words (term-map sets are intersected)",
    'query:missing:wildcard-stale-term-key': "same intersection, with a term-map key left behind (empty set) by the "
                                             "entries of a removed directory once they are garbage-collected",
    'query:extra:unindexed-item': "entries of a removed shared directory stay in the term map (weak references, "
                                  "directory<->item reference cycle) and are returned until a cyclic GC runs",
    'query:missing:readded-directory': "after remove + add of the same directory + scan, the new entries are equal "
                                       "to the stale ones, WeakSet.add keeps the stale reference, and the file "
                                       "drops out of the term map when the stale entry is collected",
    'index:wrong-owner:readded-directory': "after remove(nested) + add of the same directory + scan, the set union "
                                           "keeps the old equal entry objects, which still refer to the removed "
                                           "directory object (old share mode) even after a full scan",
    'locked-split:readded-directory': "lock status is taken from the removed directory object the entry still refers to",
    'locked-split:moved-unscanned': "entries moved between parent and child shared directory by add/remove keep "
                                    "referring to the old directory until rescanned: lock status follows the old one",
    'index:cache-roundtrip:moved-unscanned': "the cache re-parents moved-unscanned entries to their holder while "
                                             "keeping the old relative sub-directory: absolute paths become wrong",
}

SIZES = {'quick': 3000, 'thorough': 120000}

USER_POOL = ['alice', 'bob', 'carol', 'dave']
FAMILIES = [
    ['song', 'long', 'along', 'strong', 'ong'],
    ['live', 'alive', 'olive', 'five', 'ive'],
    ['01', '101', '001', '1', '2001'],
    ['mix', 'remix', 'mixx', 'premix'],
    ['café', 'cafe', 'é', 'olé', 'fé'],
    ['über', 'uber', 'ber', 'señor', 'niño', 'ño'],
    ['音楽', '楽', '音', '東京', '京'],
    ['rock', 'rocks', 'ock', 'shamrock'],
    ['dc', 'ac', 'acdc', 'c'],
    ['t', 'don', 'dont', 'st', 'stop'],
    ['love', 'glove', 'ove', 'above'],
]
SINGLES = ['the', 'beatles', 'b', 'side', '2', '02', 'mp3', 'flac', 'a', 'x', 'vol', 'cd1', 'cd', 'track']
JOINERS = [' ', ' ', ' ', '_', '-', '.', ' - ', "'", ' & ', '&', '']
EXTS = ['.mp3', '.mp3', '.MP3', '.flac', '.ogg', '.txt', '.Mp3', '']
MODES = [EVERYONE, EVERYONE, EVERYONE, FRIENDS, USERS]
OP_WEIGHTS = [('add', 25), ('remove', 10), ('update', 8), ('scan_dir', 12), ('scan', 14), ('disk', 18),
              ('load_settings', 7), ('cache', 6)]


def cases(tier: str, seed: int) -> list:
    return [{'case': i, 'seed': seed} for i in range(SIZES[tier])]


# ---------------------------------------------------------------------------
# generators

def _case_word(rng: random.Random, w: str) -> str:
    r = rng.random()
    if r < 0.5:
        return w
    if r < 0.72:
        return w[:1].upper() + w[1:]
    if r < 0.9:
        return w.upper()
    return ''.join(ch.upper() if rng.random() < 0.5 else ch for ch in w)


def _gen_name(rng: random.Random, pool: list, nmax: int) -> str:
    n = rng.randint(1, nmax)
    out = ''
    for i in range(n):
        w = _case_word(rng, rng.choice(pool))
        r = rng.random()
        if r < 0.10:
            w = '(' + w + ')'
        elif r < 0.17:
            w = '[' + w + ']'
        if i:
            out += rng.choice(JOINERS)
        out += w
    return out.strip()


def _gen_tree(rng: random.Random, pool: list):
    """-> (dirs: list of relative tuples incl. (), files: list of (dir tuple, filename))."""
    dirs = [()]
    for _ in range(rng.randint(2, 7)):
        parent = rng.choice([d for d in dirs if len(d) < 3])
        sibs = [d[-1] for d in dirs if len(d) == len(parent) + 1 and d[:-1] == parent]
        if sibs and rng.random() < 0.15:
            name = rng.choice(sibs) + rng.choice(['2', ' 2', 'x', '_b'])
        else:
            name = _gen_name(rng, pool, 2)
        if not name or name in ('.', '..') or parent + (name,) in dirs:
            continue
        dirs.append(parent + (name,))
    files = []
    seen = set()
    for _ in range(rng.randint(3, 30)):
        d = rng.choice(dirs)
        fn = _gen_name(rng, pool, 4) + rng.choice(EXTS)
        if not fn or fn in ('.', '..') or (d, fn) in seen or d + (fn,) in dirs:
            continue
        seen.add((d, fn))
        files.append((d, fn))
    return dirs, files


def _rand_case(rng: random.Random, s: str) -> str:
    r = rng.random()
    if r < 0.5:
        return s
    if r < 0.7:
        return s.upper()
    return ''.join(ch.upper() if rng.random() < 0.5 else ch for ch in s)


class QueryGen:
    """Builds queries from the words and paths currently in the reference index."""

    def __init__(self, rng: random.Random, paths: list, pool: list):
        self.rng = rng
        self.paths = sorted({p.lower() for p in paths})
        ws = set()
        for p in self.paths:
            ws.update(split_words(p))
        self.words = sorted(ws) or sorted(pool)
        self.pool = pool
        suffixes = {}
        for w in self.words:
            for i in range(len(w)):
                suffixes.setdefault(w[i:], set()).add(w)
        self.multi_suffixes = sorted(s for s, owners in suffixes.items() if len(owners) >= 2)
        self.single_suffixes = sorted(s for s, owners in suffixes.items() if len(owners) == 1)

    def word(self) -> str:
        return self.rng.choice(self.words)

    def substr(self) -> str:
        cands = [w for w in self.words if len(w) >= 2]
        if not cands:
            return self.word()
        w = self.rng.choice(cands)
        i = self.rng.randrange(0, len(w))
        j = self.rng.randrange(i + 1, len(w) + 1)
        if (i, j) == (0, len(w)):
            j -= 1
        return w[i:j]

    def wild_multi(self) -> str:
        if not self.multi_suffixes:
            return self.wild_single()
        return '*' + self.rng.choice(self.multi_suffixes)

    def wild_single(self) -> str:
        if not self.single_suffixes or self.rng.random() < 0.3:
            return '*' + self.word()
        return '*' + self.rng.choice(self.single_suffixes)

    def punct(self) -> str:
        """A span of an indexed path: 1-3 adjacent words with the separators
        between them, optionally one punctuation character more on either side."""
        if not self.paths:
            return self.word()
        for _ in range(8):
            p = self.rng.choice(self.paths)
            runs, start = [], None
            for i, ch in enumerate(p + ' '):
                if ch.isalnum():
                    if start is None:
                        start = i
                elif start is not None:
                    runs.append((start, i))
                    start = None
            if not runs:
                continue
            a = self.rng.randrange(len(runs))
            b = min(len(runs) - 1, a + self.rng.choice([0, 1, 1, 1, 2]))
            s, e = runs[a][0], runs[b][1]
            if s > 0 and not p[s - 1].isspace() and self.rng.random() < 0.4:
                s -= 1
            if e < len(p) and not p[e].isspace() and self.rng.random() < 0.4:
                e += 1
            term = p[s:e]
            if any(ch.isspace() for ch in term) or term[0] in '*-':
                continue
            if a == b and term.isalnum() and self.rng.random() < 0.7:
                continue
            return term
        return self.word()

    def punct_wild(self) -> str:
        t = self.punct()
        k = 0
        while k < len(t) and t[k].isalnum():
            k += 1
        cut = self.rng.randrange(0, max(1, k))
        return '*' + t[cut:]

    def other(self) -> str:
        fam = self.rng.choice(FAMILIES)
        return self.rng.choice(fam + SINGLES)

    def junk(self) -> str:
        return self.rng.choice(['&', '-', '_', '*', '()', "'", '.', '-_', '*-'])

    def query(self) -> str:
        rng = self.rng
        r = rng.random()
        if r < 0.14:
            terms = [self.word()]
        elif r < 0.21:
            terms = [self.substr()]
        elif r < 0.33:
            terms = [self.wild_multi()]
        elif r < 0.42:
            terms = [self.wild_single()]
        elif r < 0.54:
            terms = [self.punct()]
        elif r < 0.59:
            terms = [self.punct_wild()]
        elif r < 0.71:
            inc = rng.choice([self.word, self.word, self.wild_single, self.punct])()
            exc = rng.choice([self.word, self.word, self.punct, self.substr])()
            terms = [inc, '-' + exc]
        elif r < 0.93:
            terms = self._multi()
        elif r < 0.97:
            terms = [self.other()] + ([self.other()] if rng.random() < 0.3 else [])
        else:
            terms = [rng.choice(['-' + self.word(), self.junk()])]
        out = []
        for t in terms:
            if t[:1] in '*-' and len(t) > 1:
                out.append(t[0] + _rand_case(rng, t[1:]))
            else:
                out.append(_rand_case(rng, t))
        return rng.choice([' ', ' ', '  ', '\t']).join(out)

    def _multi(self) -> list:
        rng = self.rng
        n = rng.randint(2, 4)
        terms = []
        ws = []
        if self.paths and rng.random() < 0.8:
            ws = split_words(rng.choice(self.paths))
        for _ in range(n):
            r = rng.random()
            if r < 0.45:
                terms.append(rng.choice(ws) if ws else self.word())
            elif r < 0.60:
                w = rng.choice(ws) if ws else self.word()
                terms.append('*' + w[rng.randrange(0, len(w)):])
            elif r < 0.70:
                terms.append(self.wild_multi())
            elif r < 0.82:
                terms.append('-' + (rng.choice(ws) if ws and rng.random() < 0.25 else self.word()))
            elif r < 0.93:
                terms.append(self.punct())
            else:
                terms.append(self.junk())
        return terms


def classify(query: str, words, stale_keys=()) -> str:
    """Term-kind label for signatures (never used for the verdict).  ``words``:
    words of live entries; ``stale_keys``: further term-map keys whose entries are
    gone (only passed when a shared directory was removed earlier in the history)."""
    pq = parse_query(query)
    stale_hit = False
    for t in pq.wildcard:
        k = 0
        while k < len(t) and t[k].isalnum():
            k += 1
        first = t[:k]
        if not first:
            continue
        n_live = sum(1 for w in words if w.endswith(first))
        if n_live >= 2:
            return 'wildcard-multi-suffix'
        if n_live + sum(1 for w in stale_keys if w not in words and w.endswith(first)) >= 2:
            stale_hit = True
    if stale_hit:
        return 'wildcard-stale-term-key'
    n_incl = len(pq.include) + len(pq.wildcard)
    if pq.exclude and n_incl == 1:
        return 'exclude'
    if n_incl + len(pq.exclude) > 1:
        return 'multi'
    if pq.wildcard:
        return 'wildcard-single'
    return 'include' if pq.include[0].isalnum() else 'include-punct'


# ---------------------------------------------------------------------------
# harness

class LibraryOpError(Exception):
    def __init__(self, op: str, exc: BaseException):
        super().__init__(f'{op}: {type(exc).__name__}: {exc}')
        self.op = op
        self.exc = exc


class Harness:

    def __init__(self, params: dict, res: dict, tmp: str):
        from aioslsk.events import EventBus
        from aioslsk.settings import Settings
        from aioslsk.shares.manager import SharesManager

        self.res = res
        self.rng = random.Random(f"{params['seed']}:{ID}:{params['case']}")
        rng = self.rng
        self.tmp = tmp
        self.tree = os.path.join(tmp, 'T')
        self.cache_dir = os.path.join(tmp, 'cache')
        os.makedirs(self.tree)
        os.makedirs(self.cache_dir)

        fams = rng.sample(FAMILIES, rng.randint(2, 3))
        self.pool = [w for f in fams for w in f] + rng.sample(SINGLES, rng.randint(2, 4))
        dirs, files = _gen_tree(rng, self.pool)
        for d in dirs:
            os.makedirs(os.path.join(self.tree, *d), exist_ok=True)
        for d, fn in files:
            self._write(os.path.join(self.tree, *d, fn))
        self.mtime_bump = 0
        # Entries that cannot be stat'ed (dangling symlinks, symlink loops) come from a separate
        # random stream so that the histories themselves stay what they were without them.
        self.frng = random.Random(f"{params['seed']}:{ID}:{params['case']}:unstatable")
        self.initial_links = []
        if self.frng.random() < 0.35:
            for _ in range(self.frng.randint(1, 2)):
                made = self._make_unstatable(self.frng.choice(self._dirs_for_link()))
                if made:
                    self.initial_links.append(made)

        friends = set(rng.sample(USER_POOL, rng.randint(0, 2)))
        self.settings = Settings(credentials={'username': 'u', 'password': 'p'})
        self.settings.users.friends = set(friends)
        self.manager = SharesManager(self.settings, EventBus(), None)  # type: ignore[arg-type]
        self.model = RefIndex(friends)
        self.trace: list = []
        self.abstract: list = []
        self.kinds_nonempty: set = set()
        self.sigs_seen: dict = {}
        self.removed: list = []     # paths removed at some point (candidates for a re-add)
        self.readded: set = set()   # paths that were removed and later added again

    # -- small helpers -------------------------------------------------------------
    def violate(self, sig: str, **detail):
        """One report per signature and case (the first witness); further hits are counted."""
        if sig in self.sigs_seen:
            self.sigs_seen[sig] += 1
            return
        self.sigs_seen[sig] = 1
        runner.violation(self.res, sig, **detail)

    def _write(self, path: str):
        with open(path, 'wb') as fh:
            fh.write(b'x' * self.rng.randint(0, 40))

    def rel(self, path: str) -> str:
        r = os.path.relpath(path, self.tree)
        return '' if r == '.' else r

    def disk_dirs(self) -> list:
        out = []
        for cur, subdirs, _files in os.walk(self.tree):
            subdirs.sort()
            out.append(os.path.normpath(cur))
        return sorted(out)

    def disk_files(self) -> list:
        """Files on disk: listed non-directory entries that can be stat'ed."""
        out = []
        for cur, subdirs, files in os.walk(self.tree):
            subdirs.sort()
            for fn in sorted(files):
                p = os.path.join(os.path.normpath(cur), fn)
                if is_file_on_disk(p):
                    out.append(p)
        return sorted(out)

    def _dirs_for_link(self) -> list:
        """Directories for a new un-stat-able entry: those that hold regular files, below a
        shared directory when there is one."""
        dirs = self.disk_dirs()
        with_files = [d for d in dirs if any(os.path.isfile(os.path.join(d, fn)) for fn in os.listdir(d))]
        shared = list(getattr(self, 'model', None).dirs) if getattr(self, 'model', None) else []
        under = [d for d in with_files if any(is_under(d, sd) for sd in shared)]
        return under or with_files or dirs

    def _make_unstatable(self, d: str):
        """Create a directory entry with a music-like name that os.walk lists among the files but
        that cannot be stat'ed: a dangling symlink or a symlink loop.  Up to 4 names are tried so
        that at least one regular file is listed AFTER it (listing order = os.scandir order, which
        is what os.walk and therefore the scan uses).  -> [kind, rel path, regular file listed after]"""
        rng = self.frng
        regular = {fn for fn in os.listdir(d) if os.path.isfile(os.path.join(d, fn))}
        for attempt in range(4):
            fn = _gen_name(rng, self.pool, 3) + rng.choice(EXTS)
            p = os.path.join(d, fn)
            if not fn or fn in ('.', '..') or os.path.lexists(p):
                continue
            kind = rng.choice(['dangling', 'dangling', 'loop'])
            os.symlink(os.path.join(self.tmp, 'nowhere', fn) if kind == 'dangling' else fn, p)
            names = [e.name for e in os.scandir(d)]
            after = any(n in regular for n in names[names.index(fn) + 1:])
            if after or not regular or attempt == 3:
                runner.add_obs(self.res, 'unstatable_entries_created')
                runner.add_cover(self.res, 'unstatable_kinds', kind)
                return [kind, self.rel(p), after]
            os.unlink(p)
        return None

    def count_unstatable_in_scan(self, roots: list):
        """Coverage: what the scan that is about to run will meet."""
        seen_dirs = set()
        for root in roots:
            for cur, _subdirs, _files in os.walk(root):
                cur = os.path.normpath(cur)
                if cur in seen_dirs:
                    continue
                seen_dirs.add(cur)
                state = 0   # 1: an un-stat-able entry was listed; 2: a regular file after it
                for e in os.scandir(cur):
                    try:
                        if e.is_dir():
                            continue
                    except OSError:
                        pass
                    if not is_file_on_disk(e.path):
                        state = max(state, 1)
                    elif state == 1:
                        state = 2
                if state:
                    runner.add_obs(self.res, 'scanned_dirs_with_unstatable_entry')
                if state == 2:
                    runner.add_obs(self.res, 'scanned_dirs_with_file_listed_after_unstatable')

    def _mode(self):
        mode = self.rng.choice(MODES)
        users = sorted(self.rng.sample(USER_POOL, self.rng.randint(0, 2))) if mode == USERS else []
        return mode, users

    def _sync_settings(self):
        from aioslsk.settings import SharedDirectorySettingEntry
        from aioslsk.shares.model import DirectoryShareMode
        self.settings.shares.directories = [
            SharedDirectorySettingEntry(path=p, share_mode=DirectoryShareMode(d.mode), users=list(d.users))
            for p, d in self.model.dirs.items()]

    def relation(self, path: str) -> str:
        shared = self.model.shared_paths()
        if not shared:
            return 'first'
        has_parent = any(is_under(path, d) for d in shared)
        has_child = any(is_under(d, path) for d in shared)
        if has_parent and has_child:
            return 'middle'
        if has_parent:
            return 'child'
        if has_child:
            return 'parent'
        return 'sibling'

    def lib(self, op: str, fn, *args, **kwargs):
        try:
            return fn(*args, **kwargs)
        except Exception as exc:  # noqa  (reported as a violation, never as a pass)
            raise LibraryOpError(op, exc)

    async def alib(self, op: str, coro):
        try:
            return await coro
        except Exception as exc:  # noqa
            raise LibraryOpError(op, exc)

    # -- operations ----------------------------------------------------------------
    def pick_add_target(self) -> Optional[str]:
        cands = [d for d in self.disk_dirs() if d not in self.model.dirs]
        if not cands:
            return None
        again = [d for d in cands if d in self.removed]
        if again and self.rng.random() < 0.5:
            return self.rng.choice(again)
        nested = [d for d in cands if self.relation(d) in ('child', 'parent', 'middle')]
        if nested and self.rng.random() < 0.6:
            return self.rng.choice(nested)
        return self.rng.choice(cands)

    async def op_add(self) -> bool:
        from aioslsk.shares.model import DirectoryShareMode
        path = self.pick_add_target()
        if path is None:
            return False
        mode, users = self._mode()
        rel = self.relation(path)
        self.lib('add', self.manager.add_shared_directory, path, share_mode=DirectoryShareMode(mode),
                 users=list(users))
        self.model.add(path, mode, users)
        self._sync_settings()
        again = path in self.removed
        if again:
            self.readded.add(path)
        self.trace.append({'op': 'add', 'dir': self.rel(path), 'mode': mode, 'users': users, 'relation': rel,
                           'removed_before': again})
        self.abstract.append('add:' + rel + ('(again)' if again else ''))
        return True

    async def op_remove(self) -> bool:
        shared = self.model.shared_paths()
        if not shared:
            return False
        path = self.rng.choice(shared)
        nested = any(d != path and is_under(path, d) for d in shared)
        if self.rng.random() < 0.5:
            self.lib('remove', self.manager.remove_shared_directory, path)
        else:
            self.lib('remove', lambda: self.manager.remove_shared_directory(
                self.manager.get_shared_directory(path)) and None)
        self.model.remove(path)
        self._sync_settings()
        if path not in self.removed:
            self.removed.append(path)
        self.trace.append({'op': 'remove', 'dir': self.rel(path), 'nested': nested})
        self.abstract.append('remove:' + ('nested' if nested else 'top'))
        return True

    async def op_update(self) -> bool:
        from aioslsk.shares.model import DirectoryShareMode
        shared = self.model.shared_paths()
        if not shared:
            return False
        path = self.rng.choice(shared)
        mode, users = self._mode()
        self.lib('update', lambda: self.manager.update_shared_directory(
            path, share_mode=DirectoryShareMode(mode), users=list(users)) and None)
        self.model.update(path, mode, users)
        self._sync_settings()
        self.trace.append({'op': 'update', 'dir': self.rel(path), 'mode': mode, 'users': users})
        self.abstract.append('update')
        return True

    async def op_scan_dir(self) -> bool:
        shared = self.model.shared_paths()
        if not shared:
            return False
        path = self.rng.choice(shared)
        self.count_unstatable_in_scan([path])
        await self.alib('scan_dir', self.manager.scan_directory_files(self.manager.get_shared_directory(path)))
        self.model.scan_dir(path)
        self.trace.append({'op': 'scan_dir', 'dir': self.rel(path)})
        self.abstract.append('scan_dir')
        return True

    async def op_scan(self) -> bool:
        self.count_unstatable_in_scan(self.model.shared_paths())
        await self.alib('scan', self.manager.scan())
        self.model.scan_all()
        self.trace.append({'op': 'scan'})
        self.abstract.append('scan')
        return True

    async def op_disk(self) -> bool:
        rng = self.rng
        done = []
        for _ in range(rng.randint(1, 3)):
            files = self.disk_files()
            dirs = self.disk_dirs()
            kind = rng.choice(['create', 'create', 'create_sub', 'delete', 'delete', 'touch', 'rename', 'move'])
            if kind in ('create', 'create_sub') and len(files) >= 30:
                kind = 'delete'
            if kind in ('delete', 'touch', 'rename', 'move') and not files:
                kind = 'create'
            if kind == 'create':
                d = rng.choice(dirs)
                fn = _gen_name(rng, self.pool, 4) + rng.choice(EXTS)
                p = os.path.join(d, fn)
                if not fn or fn in ('.', '..') or os.path.lexists(p):
                    continue
                self._write(p)
                done.append(['create', self.rel(p)])
            elif kind == 'create_sub':
                cands = [d for d in dirs if len(self.rel(d).split(os.sep)) < 4] or dirs
                d = rng.choice(cands)
                name = _gen_name(rng, self.pool, 2)
                nd = os.path.join(d, name)
                if not name or name in ('.', '..') or os.path.lexists(nd):
                    continue
                os.mkdir(nd)
                for _i in range(rng.randint(1, 2)):
                    fn = _gen_name(rng, self.pool, 3) + rng.choice(EXTS)
                    p = os.path.join(nd, fn)
                    if fn and fn not in ('.', '..') and not os.path.lexists(p):
                        self._write(p)
                        done.append(['create_sub', self.rel(p)])
            elif kind == 'delete':
                p = rng.choice(files)
                os.unlink(p)
                done.append(['delete', self.rel(p)])
            elif kind == 'touch':
                p = rng.choice(files)
                self.mtime_bump += 1
                t = os.path.getmtime(p) + rng.choice([-5000.0, 1000.0, 12345.5]) + self.mtime_bump
                if rng.random() < 0.5:
                    self._write(p)
                os.utime(p, (t, t))
                done.append(['touch', self.rel(p)])
            else:
                p = rng.choice(files)
                if kind == 'rename':
                    q = os.path.join(os.path.dirname(p), _gen_name(rng, self.pool, 3) + rng.choice(EXTS))
                else:
                    q = os.path.join(rng.choice(dirs), os.path.basename(p))
                if os.path.lexists(q) or os.path.basename(q) in ('', '.', '..'):
                    continue
                os.rename(p, q)
                done.append([kind, self.rel(p), self.rel(q)])
        linked = False
        if self.frng.random() < 0.3:
            made = self._make_unstatable(self.frng.choice(self._dirs_for_link()))
            if made:
                done.append(['unstatable:' + made[0], made[1], {'regular_file_listed_after': made[2]}])
                linked = True
        elif self.frng.random() < 0.15:
            links = unstatable_entries(self.tree)
            if links:
                p = self.frng.choice(links)
                os.unlink(p)
                done.append(['unlink_unstatable', self.rel(p)])
        if not done:
            return False
        self.trace.append({'op': 'disk', 'changes': done})
        self.abstract.append('disk+unstatable' if linked else 'disk')
        return True

    async def op_load_settings(self) -> bool:
        rng = self.rng
        entries = [(p, d.mode, list(d.users)) for p, d in self.model.dirs.items()]
        changes = []
        for _ in range(rng.randint(1, 2)):
            kind = rng.choice(['add', 'add', 'remove', 'update'])
            if kind == 'add':
                have = {e[0] for e in entries}
                cands = [d for d in self.disk_dirs() if d not in have]
                if not cands:
                    continue
                mode, users = self._mode()
                p = rng.choice(cands)
                entries.insert(rng.randint(0, len(entries)), (p, mode, users))
                changes.append(['add', self.rel(p), mode, users])
            elif entries and kind == 'remove':
                e = entries.pop(rng.randrange(len(entries)))
                changes.append(['remove', self.rel(e[0])])
            elif entries:
                i = rng.randrange(len(entries))
                mode, users = self._mode()
                entries[i] = (entries[i][0], mode, users)
                changes.append(['update', self.rel(entries[i][0]), mode, users])
        if not changes:
            return False
        from aioslsk.settings import SharedDirectorySettingEntry
        from aioslsk.shares.model import DirectoryShareMode
        self.settings.shares.directories = [
            SharedDirectorySettingEntry(path=p, share_mode=DirectoryShareMode(m), users=list(u))
            for p, m, u in entries]
        before = set(self.model.dirs)
        self.lib('load_settings', self.manager.load_from_settings)
        self.model.load_settings(entries)
        for path in sorted(set(self.model.dirs) - before):
            if path in self.removed:
                self.readded.add(path)
        for path in sorted(before - set(self.model.dirs)):
            if path not in self.removed:
                self.removed.append(path)
        self.trace.append({'op': 'load_settings', 'changes': changes})
        self.abstract.append('load_settings')
        return True

    async def op_cache(self) -> bool:
        from aioslsk.events import EventBus
        from aioslsk.shares.cache import SharesShelveCache
        from aioslsk.shares.manager import SharesManager
        if not self.model.dirs:
            return False
        self._sync_settings()
        had_dontcare = bool(self.model.dontcare)
        self.manager.cache = SharesShelveCache(self.cache_dir)
        await self.alib('cache', self.manager.store_data())
        fresh = SharesManager(self.settings, EventBus(), None,  # type: ignore[arg-type]
                              cache=SharesShelveCache(self.cache_dir))
        await self.alib('cache', fresh.load_data())
        self.manager = fresh
        self.model.load_settings([(p, d.mode, list(d.users)) for p, d in self.model.dirs.items()])
        self.trace.append({'op': 'cache'})
        self.abstract.append('cache')
        if had_dontcare:
            # entries that were already unjudged may come back re-parented: keep them unjudged
            known = self.model.by_abspath()
            self.model.dontcare.update(ap for _h, ap, _i, _d in self.real_index() if ap not in known)
        moved = [it for it in self.model.entries() if it.moved]
        if moved:
            # The round trip must preserve the index.  Judge that once, here, for the moved-unscanned
            # entries and then stop judging them (dontcare) so that one defect yields one signature.
            have = {(h, ap) for h, ap, _i, _d in self.real_index()}
            lost = [it for it in moved if (it.owner, it.abspath) not in have]
            for it in moved:
                base_sub = os.path.relpath(os.path.dirname(it.abspath), it.base)
                reparented = os.path.normpath(os.path.join(it.owner, base_sub, it.filename))
                self.model.forget(it, also=[reparented])
            if lost:
                it = lost[0]
                self.violate('index:cache-roundtrip:moved-unscanned', witness=self.witness(
                    file=self.rel(it.abspath), owner=self.rel(it.owner) or '.', scanned_under=self.rel(it.base) or '.',
                    n_lost=len(lost),
                    index_now=sorted(self.rel(ap) for h, ap in have if h == it.owner)[:12]))
        return True

    # -- monitors ------------------------------------------------------------------------
    def witness(self, **extra) -> dict:
        w = {
            'files_on_disk': [self.rel(p) for p in self.disk_files()][:40],
            'unstatable_entries': [[self.rel(p), 'symlink -> ' + os.readlink(p).replace(self.tmp, '<tmp>')
                                    if os.path.islink(p) else 'other'] for p in unstatable_entries(self.tree)],
            'shared': [[self.rel(p) or '.', d.mode, d.users] for p, d in self.model.dirs.items()],
            'friends': sorted(self.model.friends),
            'history': self.trace[-10:],
        }
        w.update(extra)
        return w

    def real_index(self):
        """[(holder abs, item abs path, item)] for every item of every shared directory."""
        out = []
        for d in self.manager.shared_directories:
            for item in d.items:
                out.append((d.absolute_path, os.path.normpath(item.get_absolute_path()), item, d))
        return out

    def check_directories(self) -> bool:
        real = sorted(d.absolute_path for d in self.manager.shared_directories)
        want = sorted(self.model.dirs)
        if real != want:
            self.violate('index:shared-directories-mismatch',
                             witness=self.witness(real=[self.rel(p) for p in real],
                                                  expected=[self.rel(p) for p in want]))
            return False
        return True

    def check_index(self, full: bool):
        res = self.res
        runner.add_obs(res, 'index_checks')
        if full:
            runner.add_obs(res, 'index_checks_after_full_scan')
            disk = self.model.from_disk()
            if disk != self.model.owned() or self.model.has_moved() or self.model.dontcare:
                raise RuntimeError('harness self-check: model after full scan differs from the walk of the disk')
        suffix = '' if full else ':partial-op'
        real = self.real_index()
        model = self.model.by_abspath()
        counts = Counter(ap for _h, ap, _i, _d in real)
        dups = sorted(ap for ap, n in counts.items() if n > 1)
        if dups:
            holders = sorted({(self.rel(h) or '.') for h, ap, _i, _d in real if ap == dups[0]})
            self.violate('index:duplicate' + suffix,
                             witness=self.witness(file=self.rel(dups[0]), held_by=holders, n_duplicates=len(dups)))
        real_aps = set(counts)
        for holder, ap, item, d in real:
            it = model.get(ap)
            if it is None:
                if ap in self.model.dontcare:
                    continue
                on_disk = os.path.isfile(ap)
                self.violate('index:stale' + suffix,
                                 witness=self.witness(file=self.rel(ap), held_by=self.rel(holder) or '.',
                                                      exists_on_disk=on_disk,
                                                      item_subdir=item.subdir, item_filename=item.filename,
                                                      item_directory=self.rel(item.shared_directory.absolute_path)
                                                      if item.shared_directory else None))
            elif it.owner != holder:
                self.violate('index:wrong-owner' + suffix,
                                 witness=self.witness(file=self.rel(ap), held_by=self.rel(holder) or '.',
                                                      expected_owner=self.rel(it.owner) or '.'))
            elif full and (item.shared_directory is not d or
                           (item.subdir, item.filename) != (it.subdir, it.filename)):
                stale_ref = item.shared_directory is not d and self._under_readded(ap)
                self.violate('index:wrong-owner' + (':readded-directory' if stale_ref else ''),
                             witness=self.witness(file=self.rel(ap), held_by=self.rel(holder) or '.',
                                                  item_subdir=item.subdir, expected_subdir=it.subdir,
                                                  entry_refers_to_holder_object=item.shared_directory is d,
                                                  entry_directory_mode=str(getattr(item.shared_directory,
                                                                                   'share_mode', None)),
                                                  holder_mode=str(d.share_mode),
                                                  note='entry does not refer to its holder after a full scan'))
        for ap, it in sorted(model.items()):
            if ap not in real_aps:
                sig = 'index:missing-after-scan' if full else 'index:missing:partial-op'
                if it.moved:
                    sig += ':moved-unscanned'
                self.violate(sig, witness=self.witness(
                    file=self.rel(ap), expected_owner=self.rel(it.owner) or '.',
                    scanned_under=self.rel(it.base) or '.', exists_on_disk=os.path.isfile(ap)))

    def check_stats(self):
        res = self.res
        runner.add_obs(res, 'stats_checks')
        got = tuple(self.manager.get_stats())
        real = self.real_index()
        real_files = len(real)
        real_dirs = len({(h, os.path.dirname(ap)) for h, ap, _i, _d in real})
        m_dirs, m_files = self.model.stats()
        judge_dirs = not self.model.has_moved() and not self.model.dontcare
        if not judge_dirs:
            runner.add_obs(res, 'stats_foldercount_unjudged')
        bad = []
        if got[1] != real_files:
            bad.append('file_count != real index')
        if not self.model.dontcare and got[1] != m_files:
            bad.append('file_count != model')
        if judge_dirs and got[0] != real_dirs:
            bad.append('folder_count != real index')
        if judge_dirs and got[0] != m_dirs:
            bad.append('folder_count != model')
        if bad:
            self.violate('stats:mismatch', witness=self.witness(
                get_stats=list(got), real_index=[real_dirs, real_files], model=[m_dirs, m_files], what=bad))

    def run_queries(self, n: int):
        import gc
        res, rng, model = self.res, self.rng, self.model
        entries = model.entries()
        by_key = {it.key: it for it in entries}
        # labels only: words of the reference index plus the keys of the real term map
        # (stale keys of unindexed entries also take part in the library's suffix expansion)
        model_words = model.words()
        paths = [it.qpath_owner() for it in entries] + [it.qpath_base() for it in entries if it.moved]
        if not paths and rng.random() < 0.5:
            paths = [os.path.relpath(p, self.tree).replace(os.sep, '\\') for p in self.disk_files()]
        gen = QueryGen(rng, paths, self.pool)
        for _ in range(n):
            query = gen.query()
            k = rng.randint(1, 5) if rng.random() < 0.45 else rng.randint(1, 100)
            username = rng.choice(USER_POOL) if rng.random() < 0.4 else None
            self.settings.searches.receive.max_results = k
            runner.add_obs(res, 'queries_run')
            try:
                visible, locked = self.manager.query(query, username=username)
            except Exception as exc:  # noqa
                self.violate(f'query:exception:{type(exc).__name__}',
                                 witness=self.witness(query=query, error=repr(exc)[:300]))
                continue
            sel = model.select(query)
            if sel is None:
                runner.add_obs(res, 'queries_unjudged_no_inclusion_term')
                continue
            term_map = getattr(self.manager, '_term_map', {}) or {}
            words = model_words | {w for w, bucket in term_map.items() if len(bucket)}
            kind = classify(query, words, stale_keys=list(term_map) if self.removed else ())
            runner.add_obs(res, 'queries_judged')
            runner.add_cover(res, 'query_kinds', kind)
            if username is not None:
                runner.add_obs(res, 'queries_with_username')
            if sel.must:
                runner.add_obs(res, 'queries_nonempty')
                self.kinds_nonempty.add(kind)
            if len(sel.must) > k:
                runner.add_obs(res, 'queries_above_cap')
            if sel.may:
                runner.add_obs(res, 'queries_with_ambiguous_entries')
            if username is None and locked:
                self.violate('locked-split', witness=self.witness(
                    query=query, note='locked results returned although no username was given'))

            holder_of, real_by_ap = {}, {}
            for d in self.manager.shared_directories:
                for item in d.items:
                    holder_of[id(item)] = d.absolute_path
                    real_by_ap[os.path.normpath(item.get_absolute_path())] = (item, d)
            got_keys, unindexed, extra, lock_bad = [], [], [], []
            for item, is_locked in [(i, False) for i in visible] + [(i, True) for i in locked]:
                holder = holder_of.get(id(item))
                ap = os.path.normpath(item.get_absolute_path())
                if holder is None:
                    unindexed.append(self.rel(ap))
                    continue
                sub = os.path.relpath(os.path.dirname(ap), holder)
                key = (holder, '' if sub == '.' else sub, os.path.basename(ap))
                got_keys.append(key)
                if key in sel.must or key in sel.may:
                    if username is not None:
                        want_locked = model.is_locked(key[0], username)
                        if want_locked != is_locked:
                            stale_ref = (item.shared_directory is not real_by_ap[ap][1]
                                         and not by_key[key].moved and self._under_readded(ap))
                            lock_bad.append((key, want_locked, ':moved-unscanned' if by_key[key].moved else
                                             (':readded-directory' if stale_ref else '')))
                elif ap in model.dontcare:
                    pass
                else:
                    extra.append(key)
            got = set(got_keys)

            def show(keys):
                return sorted((self.rel(o) or '.') + ' :: ' + os.path.join(s, f) for o, s, f in keys)[:12]

            common = dict(query=query, kind=kind, max_results=k, username=username,
                          expected=show(sel.must), also_acceptable=show(sel.may), got=show(got))
            if len(got_keys) != len(got):
                self.violate('query:duplicate', witness=self.witness(**common))
            if unindexed:
                # The index holds its items weakly.  An item that has left every shared directory can stay
                # reachable for a moment through references that are not the library's index: a worker thread of the
                # scan that has not yet dropped its locals, an object cycle waiting for the cyclic collector.  What
                # is returned then depends on thread and collector timing, which neither the harness nor a replay
                # controls (seen once in 120 000 histories, not reproducible).  It is a violation only if it
                # PERSISTS once those references are gone: the harness drops its own, lets the worker threads
                # finish, collects, and asks again (same query, cap lifted).
                n_returned = len(visible) + len(locked)
                item = visible = locked = None
                self.settings.searches.receive.max_results = 1000
                before = self._count_unindexed(query, username)
                time.sleep(0.05)
                gc.collect()
                after = self._count_unindexed(query, username)
                if after:
                    self.violate('query:extra:unindexed-item', witness=self.witness(
                        unindexed=unindexed, returned=n_returned, unindexed_before_gc=before, unindexed_after_gc=after,
                        **common))
                else:
                    runner.add_obs(self.res, 'transient_unindexed_items_not_judged')
                    unindexed = []
            if extra:
                in_model = [x for x in extra if x in by_key]
                sig = f'query:extra:{kind}' if in_model else 'query:extra:stale-index-item'
                self.violate(sig, witness=self.witness(extra=show(extra), **common))
            total = len(got_keys) + len(unindexed)
            if total > k:
                self.violate('query:cap', witness=self.witness(returned=total, **common))
            elif total < k:
                missing = sel.must - got
                if missing:
                    # label only: an indexed entry of a removed-and-re-added directory that is absent
                    # (by identity) from the term-map sets of its own words
                    lost = [key for key in missing
                            if self._under_readded(by_key[key].abspath)
                            and not self._in_term_map(real_by_ap.get(by_key[key].abspath))]
                    label = 'readded-directory' if lost else kind
                    self.violate(f'query:missing:{label}', witness=self.witness(
                        missing=show(missing), absent_from_term_map=show(lost), **common))
            for key, want_locked, label in lock_bad[:1]:
                self.violate('locked-split' + label, witness=self.witness(
                    file=show([key]), expected_locked=want_locked, owner_mode=model.dirs[key[0]].mode,
                    owner_users=model.dirs[key[0]].users, **common))

    def _under_readded(self, abs_file: str) -> bool:
        return any(is_under(abs_file, r) for r in self.readded)

    def _in_term_map(self, entry) -> bool:
        """Is the real entry present, by identity, in the term-map set of each of its words?
        Diagnostic for labels only; True when it cannot be told."""
        tm = getattr(self.manager, '_term_map', None)
        if entry is None or tm is None:
            return True
        item = entry[0]
        for w in split_words(item.subdir + '/' + item.filename):
            bucket = tm.get(w)
            if bucket is None or not any(x is item for x in bucket):
                return False
        return True

    def _count_unindexed(self, query: str, username) -> int:
        held = set()
        for d in self.manager.shared_directories:
            held.update(id(i) for i in d.items)
        v, l = self.manager.query(query, username=username)
        return sum(1 for i in v + l if id(i) not in held)

    def observe(self, nqueries: int, full: bool):
        # queries first: nothing of the harness runs between the operation and the first query
        self.run_queries(nqueries)
        if self.check_directories():
            self.check_index(full)
            self.check_stats()

    # -- driver ------------------------------------------------------------------------------
    async def run(self):
        rng = self.rng
        length = rng.randint(3, 8)
        ops = {'add': self.op_add, 'remove': self.op_remove, 'update': self.op_update,
               'scan_dir': self.op_scan_dir, 'scan': self.op_scan, 'disk': self.op_disk,
               'load_settings': self.op_load_settings, 'cache': self.op_cache}
        names = [n for n, _w in OP_WEIGHTS]
        weights = [w for _n, w in OP_WEIGHTS]
        step = 0
        while step < length:
            last = step == length - 1
            if last:
                name = 'scan'
            elif step == 0:
                name = 'add'
            elif step == 1 and rng.random() < 0.6:
                name = rng.choice(['scan', 'scan', 'scan_dir', 'add'])
            else:
                name = rng.choices(names, weights)[0]
            done = False
            for _try in range(4):
                done = await ops[name]()
                if done:
                    break
                name = rng.choices(names, weights)[0] if not last else 'scan'
            if not done:
                step += 1
                continue
            runner.add_cover(self.res, 'op_kinds', self.abstract[-1])
            runner.add_obs(self.res, 'ops')
            full = name == 'scan'
            self.observe(20 if last else (10 if full else 5), full)
            step += 1


def run_case(params: dict) -> dict:
    res = runner.new_result(params['case'])
    logging.getLogger('aioslsk').setLevel(logging.CRITICAL)
    tmp = tempfile.mkdtemp(prefix='vf-c07-')
    h = None
    try:
        h = Harness(params, res, tmp)
        try:
            asyncio.run(h.run())
        except LibraryOpError as exc:
            runner.violation(res, f'op-exception:{exc.op}:{type(exc.exc).__name__}',
                             witness=h.witness(error=str(exc)[:400]))
        if h.kinds_nonempty:
            res['csigs'].append('>'.join(h.abstract) + '|' + ','.join(sorted(h.kinds_nonempty)))
        if params['case'] < 48:
            res['sample'] = {
                'params': params,
                'files_on_disk_at_end': [h.rel(p) for p in h.disk_files()],
                'unstatable_entries_in_initial_tree': h.initial_links,
                'unstatable_entries_at_end': [h.rel(p) for p in unstatable_entries(h.tree)],
                'shared_at_end': [[h.rel(p) or '.', d.mode, d.users] for p, d in h.model.dirs.items()],
                'history': h.trace,
                'observed': dict(res['obs']),
            }
    finally:
        shutil.rmtree(tmp, ignore_errors=True)
    return res
