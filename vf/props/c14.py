"""C14 — search requests flow down the tree exactly once and are answered to the asker (DESIGN §4 C14)."""
from __future__ import annotations

from .. import runner
from ..distcases import run_c14_case

ID = 'C14'
LEVEL = 'exploration'
QUICK_SCALE = 10      # the quick tier was enlarged by this factor after MIN_OBS['quick'] was measured
RULE = (
    "One run = one simulated world: scripted server, the real client 'me' logged in with a scanned share (1-3 "
    "shared directories, modes everyone/friends/users, 2-6 files each, names from a per-run word pool with "
    "suffix-sharing words), seeded friends and block list, 3-4 scripted distributed peers and 3 scripted askers. "
    "A seeded tree is built with the C13 event functions (optional parent = proposed peer that announces level "
    "and root, 0-3 children = peers dialling in, optional candidate = proposed peer that never announces / that "
    "dials in); then 2-4 bursts of 1-3 search requests with membership changes (child leaves/joins, parent "
    "leaves/new parent/parent re-announces) at quiescent points between bursts. Carrier: with a parent 50 % "
    "DistributedSearchRequest, 35 % DistributedServerSearchRequest (legacy) on the parent's link, 15 % "
    "ServerSearchRequest; without a parent ServerSearchRequest. Users: askers, distributed peers, the own name; "
    "tickets unique; queries from the C07 generator over the words of the share. Half of the runs separate "
    "requests by quiescence, the other half fire a burst with gaps of 0-3 yields / 2-10 ms. Two further families: "
    "'many-proposals' (16 % of the runs): the tree starts with three PotentialParents lists of 9-12 names (31+ in "
    "all, more than the documented 20-name cache; all but one unreachable) and the connect to the first proposed "
    "user takes 2-3 s, so it completes after its name left the cache; that user is the run's candidate. "
    "'closing-child' (20 %): every connection has whole segments and one fixed latency equal to the FIN latency, and "
    "in 70 % of the bursts with >= 2 children one child closes/aborts at the very instant the requests are sent (FIN "
    "and first request reach the client in the same loop iteration, either order): that child may get 0 or 1 "
    "copies, its siblings exactly one (forward:missing:while-a-child-closes). 'asker-closes' (14 %, same aligned "
    "latencies; in two thirds of these runs an application listener that sleeps 5 ms while a peer connection is "
    "CLOSING is registered on the client): pairs of requests with matches from one asker; the asker closes/aborts "
    "the connection that carried the first reply at the instant the second request is sent (either order) or 1-3 ms "
    "before it; for the second request a reply counts when the client WROTE it on a connection to the asker (SimNet "
    "write log), exactly one is required (reply:missing:asker-closed-the-previous-connection). In every family 15 % "
    "of the bursts with a parent run WITHOUT A SESSION: the server resets its link, the tree connections stay "
    "open, the parent sends the requests (distributed / legacy), then the harness logs in again; forwarding is "
    "judged as usual (forward:missing:<carrier>:without-session), the reply is not (no server to look the asker "
    "up). In 25 % of the runs (any family) 1-3 indexed files (never all) are deleted from disk AFTER the scan "
    "(stale index; visible and friends/users-only directories alike) and 40 % of the otherwise free queries are a "
    "word of such a file: the expected reply carries the indexed matches that still exist; when a match vanished "
    "and others remain exactly one reply is required (reply:missing:a-matching-file-vanished-from-disk); when ALL "
    "indexed matches vanished 0 or 1 reply is accepted (the library sends an empty one) but it must name no file. "
    "Oracle per request, "
    "K = links of the client's children at the quiescent moment before the burst, minus every connection the client "
    "itself opened (SimNet: dialled by 'me' or pierced on the client's ConnectToPeer - a connection to a proposed "
    "user is a candidate's whatever the children list says: forward:to-candidate), plus every connection that was "
    "taken as child and that nobody closed although it is missing from the children list "
    "(forward:missing:child-dropped-without-closing; between bursts the server lowers the child limit below the "
    "number of children in 20 % of the membership changes with >= 2 children): exactly one "
    "DistributedSearchRequest with the same user/ticket/query on every link in K, none on any other link of any "
    "scripted party (parent, candidates, former children, P links); own-name requests: nothing anywhere and no "
    "reply; reply: the asker receives exactly one PeerSearchReply(username 'me', ticket) whose results / "
    "locked_results are the remote paths of the files selected by the reference predicate and split by the "
    "reference entitlement model (vf/sharesmodel.py), none when nothing matches or the asker is blocked for "
    "searches. Non-trivial: a request judged with K non-empty or with a reply expected; distinct = mode + abstract "
    "event sequence + per burst (children, parent, carriers).")
ASSUMPTIONS = [
    "K is read from the client's own children list at a quiescent moment (C13 judges how that list is formed); "
    "children never announce in this workload (that history belongs to C13)",
    "a ServerSearchRequest received while a parent is set is outside 'when acting as branch root': then forwarding "
    "to the children is not required (0 or 1 copies accepted), everything else is judged",
    "queries without include/wildcard term: reply not judged (as in C07), forwarding judged",
    "<= 18 files, max_results = 100: the result cap never applies",
    "not judged: free slots / speed / queue fields and file attributes of the reply, SearchRequestReceivedEvent",
    "1 virtual s after a burst every forward and reply has arrived (address lookup + connect <= 100 ms)",
]
MIN_OBS = {
    'quick': {'runs': 290, 'requests_judged': 1400, 'forwards_checked': 3000, 'replies_checked': 1000,
              'replies_expected': 250, 'own_name_requests': 100, 'bursts_with_child_closing': 30,
              'runs_with_many_proposals': 25, 'bursts_without_session': 30, 'bursts_with_asker_closing': 40,
              'runs_with_vanished_files': 50, 'replies_expected_with_vanished_match': 100,
              'replies_expected_with_vanished_locked_match': 40},
    'thorough': {'runs': 9800, 'requests_judged': 48000, 'forwards_checked': 100000, 'replies_checked': 35000,
                 'replies_expected': 8000, 'own_name_requests': 3500, 'bursts_with_child_closing': 1000,
                 'runs_with_many_proposals': 900, 'bursts_without_session': 1000, 'bursts_with_asker_closing': 1300},
}
SHARD_TIMEOUT = {'quick': 600, 'thorough': 5400}
SIZES = {'quick': 3000, 'thorough': 200000}
WHAT_FAILS = {
    'forward:': 'a search request was not passed on exactly once to exactly the current children',
    'own-search:forwarded': 'a request carrying the own user name was passed on to the children',
    'own-search:answered': 'a request carrying the own user name was answered (to the client itself)',
    'reply:': 'the search reply to the asker is missing / duplicated / unexpected / carries other files',
}


def cases(tier: str, seed: int) -> list:
    return [{'seed': seed, 'idx': i} for i in range(SIZES[tier])]


def run_case(params: dict) -> dict:
    res = runner.new_result(params.get('case', 0))
    run_c14_case(res, params)
    return res
