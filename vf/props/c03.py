"""C03 — transfer state changes follow the documented graph (DESIGN §4 C03)."""
from __future__ import annotations

import asyncio
import itertools
import os
import random
import shutil
import tempfile

from .. import runner
from ..monitors import TransferMonitor, graph, op_allowed, safety_net_violations
from ..simloop import SimLoop, install_time_shims, settle
from ..world import World, run_world

ID = 'C03'
LEVEL = 'exploration'
QUICK_SCALE = 10      # the quick tier was enlarged by this factor after MIN_OBS['quick'] was measured
RULE = ("kind=matrix (exhaustive): every state x every operation (8 state methods + the 3 public manager calls) x "
        "{upload, download}, the transfer driven into the state through legal operations, downloads with a real "
        "partial file. kind=concurrent: from every state 2-3 operations issued together (gather or staggered by 0-3 "
        "zero-time yields) while a slow operation holds the transfer's lock (a transfer task that needs several loop "
        "steps to honour its cancellation, thread-pool latency on exists/remove). kind=live: two real clients "
        "transferring over the simulated net while user calls (abort/pause/queue, 1-3 together) land at seeded "
        "instants. kind=peer-matrix: every transfer-related peer message (queue failed, upload failed, transfer "
        "request, transfer queue, place in queue) through the real manager handlers for a transfer in every state "
        "with the tasks the manager would have attached: when every state operation a handler issued was refused, "
        "fields, file and tasks must be unchanged between its entry and return. Monitors: M1 a state listener registered first on every Transfer (edge in the pinned graph, "
        "continuity), M2 observation inside the transfer's own lock (state at lock time vs state dispatched on, "
        "result, snapshot of file / reasons / timestamps / tasks before and after), M3 the public manager calls "
        "(raise iff refused). Non-trivial = at least one operation was observed inside the lock; distinct = (kind, "
        "start state, direction, multiset of ops, order in which they acquired the lock).")
ASSUMPTIONS = [
    "pinned/transfer_graph.json is the documented graph (state classes + USAGE.rst at the pinned commit)",
    "operations invoked on a state object obtained by other means than transfer.state are not covered",
    "in kind=concurrent the slow transfer task is a harness coroutine standing in for _download_file/_upload_file "
    "(it honours cancellation after k loop steps, like their 'except CancelledError: await connection.disconnect()'); "
    "kind=live uses the real tasks",
]
MIN_OBS = {'quick': {'m2_ops': 3000, 'm1_edges': 2000, 'm2_lock_waits': 300, 'm2_refused': 300},
           'thorough': {'m2_ops': 100000, 'm1_edges': 60000, 'm2_lock_waits': 10000, 'm2_refused': 10000}}
EXHAUSTIVE = {'quick': False, 'thorough': False}

STATES = ['VIRGIN', 'QUEUED', 'INITIALIZING', 'DOWNLOADING', 'UPLOADING', 'INCOMPLETE', 'COMPLETE', 'FAILED',
          'ABORTED', 'PAUSED']
OPS = ['queue', 'pause', 'abort', 'fail', 'complete', 'incomplete', 'initialize', 'start_transferring']
API_OPS = ['api_abort', 'api_queue', 'api_pause']
DRIVE = {
    'VIRGIN': [],
    'QUEUED': ['queue'],
    'PAUSED': ['pause'],
    'INITIALIZING': ['queue', 'initialize'],
    'DOWNLOADING': ['queue', 'initialize', 'start_transferring'],
    'UPLOADING': ['queue', 'initialize', 'start_transferring'],
    'COMPLETE': ['queue', 'initialize', 'start_transferring', 'complete'],
    'INCOMPLETE': ['queue', 'initialize', 'start_transferring', 'incomplete'],
    'FAILED': ['queue', 'fail'],
    'ABORTED': ['queue', 'abort'],
}


def states_for(direction: str) -> list[str]:
    if direction == 'UPLOAD':
        return [s for s in STATES if s not in ('DOWNLOADING', 'INCOMPLETE')]
    return [s for s in STATES if s != 'UPLOADING']


#: (seed, i) of kind=live histories that exposed a defect
REGRESSION_LIVE = [
    (1, 18343),     # 5b5e98b: negotiation task created while an abort was in progress ignored the refused initialize()
]


def cases(tier: str, seed: int) -> list[dict]:
    out = []
    # matrix: batches per (direction, state)
    for direction in ('DOWNLOAD', 'UPLOAD'):
        for st in states_for(direction):
            out.append({'kind': 'matrix', 'direction': direction, 'state': st, 'seed': seed})
    # peer-message matrix: every state x direction x transfer-related peer message through the real handlers
    for direction in ('DOWNLOAD', 'UPLOAD'):
        for st in states_for(direction):
            out.append({'kind': 'peer-matrix', 'direction': direction, 'state': st, 'seed': seed})
    n_conc = 30000 if tier == 'quick' else 1500000
    batch = 25
    for i in range(n_conc // batch):
        out.append({'kind': 'concurrent', 'seed': seed, 'i': i, 'n': batch})
    n_live = 240 if tier == 'quick' else 20000
    for i in range(n_live):
        out.append({'kind': 'live', 'seed': seed, 'i': i})
    # witnesses of earlier findings, kept with the world they were found in
    for rs, ri in REGRESSION_LIVE:
        out.append({'kind': 'live', 'seed': rs, 'i': ri, 'regression': True})
    return out


def run_case(params: dict) -> dict:
    if params['kind'] == 'matrix':
        return _run_matrix(params)
    if params['kind'] == 'concurrent':
        return _run_concurrent(params)
    if params['kind'] == 'peer-matrix':
        return _run_peer_matrix(params)
    return _run_live(params)


# ---------------------------------------------------------------------------
# helpers shared by matrix / concurrent

class Bench:
    """A real TransferManager (inside a not-started client) + one transfer."""

    def __init__(self, tmp: str, tm: TransferMonitor, exec_delay: float = 0.0):
        from aioslsk.client import SoulSeekClient
        from aioslsk.settings import CredentialsSettings, Settings, SharesSettings
        self.tmp = tmp
        self.tm = tm
        settings = Settings(credentials=CredentialsSettings(username='me', password='pw'),
                            shares=SharesSettings(scan_on_start=False, download=tmp))
        self.client = SoulSeekClient(settings)
        self.manager = self.client.transfers
        self.n = 0

    async def new_transfer(self, direction: str):
        from aioslsk.transfer.model import Transfer, TransferDirection
        self.n += 1
        t = Transfer('peer', f'@@abc\\dir\\file{self.n}.bin', TransferDirection[direction])
        t.filesize = 1000
        path = os.path.join(self.tmp, f'file{self.n}.bin')
        with open(path, 'wb') as fh:
            fh.write(b'x' * 400)
        t.local_path = path
        t.bytes_transfered = 400
        await self.manager.add(t)
        return t

    async def drive(self, t, state: str, slow_steps: int = 0):
        for op in DRIVE[state]:
            if op == 'fail':
                ok = await t.state.fail(reason='Cancelled')
            elif op == 'abort':
                ok = await t.state.abort(reason='Requested')
            else:
                ok = await getattr(t.state, op)()
            if not ok:
                raise RuntimeError(f'harness: could not drive to {state} via {op}')
        if t.state.VALUE.name != state:
            raise RuntimeError(f'harness: wanted {state}, got {t.state.VALUE.name}')
        # the tasks the real manager would have attached in that state
        if state in ('INITIALIZING', 'DOWNLOADING', 'UPLOADING'):
            t._transfer_task = asyncio.ensure_future(_slow_task(slow_steps))
            t._transfer_task.add_done_callback(t._transfer_task_complete)
        elif state == 'QUEUED' and t.is_download():
            t._remotely_queue_task = asyncio.ensure_future(_slow_task(slow_steps))
            t._remotely_queue_task.add_done_callback(t._remotely_queue_task_complete)
        await asyncio.sleep(0)

    async def apply(self, t, op: str):
        """Returns ('ok', result) | ('raised', ExcName)."""
        from aioslsk.exceptions import InvalidStateTransition
        try:
            if op == 'api_abort':
                await self.manager.abort(t)
                return ('ok', True)
            if op == 'api_queue':
                await self.manager.queue(t)
                return ('ok', True)
            if op == 'api_pause':
                await self.manager.pause(t)
                return ('ok', True)
            if op == 'fail':
                return ('ok', await t.state.fail(reason='Cancelled'))
            if op == 'abort':
                return ('ok', await t.state.abort(reason='Requested'))
            return ('ok', await getattr(t.state, op)())
        except InvalidStateTransition:
            return ('raised', 'InvalidStateTransition')


class _SlowListener:
    def __init__(self, steps: int):
        self.steps = steps

    async def on_transfer_state_changed(self, transfer, old, new):
        for _ in range(self.steps):
            await asyncio.sleep(0)


class _LateObserver:
    """A listener registered behind a slow one: every (old, new) it is told must be an edge of the graph."""

    def __init__(self, direction: str):
        self.direction = direction
        self.seen = 0
        self.bad: list = []

    async def on_transfer_state_changed(self, transfer, old, new):
        from ..monitors import edge_ok
        self.seen += 1
        if not edge_ok(old.name, new.name, self.direction):
            self.bad.append((old.name, new.name))


async def _slow_task(steps: int):
    """Stands in for a transfer task: runs until cancelled, then needs ``steps``
    loop iterations to finish (like 'except CancelledError: await disconnect')."""
    try:
        await asyncio.sleep(3600)
    except asyncio.CancelledError:
        for _ in range(steps):
            await asyncio.sleep(0)
        raise


def _target(op: str, direction: str) -> str:
    base = op[4:] if op.startswith('api_') else op
    tgt = graph()['op_target'][base]
    if tgt == 'TRANSFERRING':
        tgt = 'UPLOADING' if direction == 'UPLOAD' else 'DOWNLOADING'
    return tgt


def _run_on_simloop(coro_fn, exec_delay: float = 0.0, seed='x'):
    install_time_shims()
    loop = SimLoop()
    loop.sim_executor.rng = random.Random(f'{seed}:exec')
    loop.sim_executor.max_delay = exec_delay
    try:
        return loop.run_main(coro_fn(loop), wall_timeout=120), list(loop.exceptions)
    finally:
        loop.shutdown_sim()


# ---------------------------------------------------------------------------

def _run_matrix(params: dict) -> dict:
    res = runner.new_result(params['case'])
    direction, state = params['direction'], params['state']
    tm = TransferMonitor()
    tm.activate()
    tmp = tempfile.mkdtemp(prefix='vf-c03-')
    rows = []

    async def main(loop):
        bench = Bench(tmp, tm)
        for op in OPS + API_OPS:
            t = await bench.new_transfer(direction)
            await bench.drive(t, state)
            n_edges = len(tm.edges)
            before_state = t.state.VALUE.name
            outcome = await bench.apply(t, op)
            await asyncio.sleep(0)
            base = op[4:] if op.startswith('api_') else op
            allowed = op_allowed(before_state, base, direction)
            after_state = t.state.VALUE.name
            new_edges = tm.edges[n_edges:]
            rows.append((op, outcome, after_state))
            runner.add_obs(res, 'matrix_cells')
            # M3: the public calls raise iff the operation is refused; state methods return bool
            took_effect = outcome == ('ok', True)
            if allowed != took_effect:
                runner.violation(res, f"matrix:{'refused-allowed-op' if allowed else 'accepted-disallowed-op'}:{base}:in-{before_state}:{direction.lower()}",
                                 op=op, outcome=outcome, after_state=after_state)
            if took_effect and after_state != _target(op, direction):
                runner.violation(res, f'matrix:wrong-target:{base}:in-{before_state}:{direction.lower()}',
                                 after_state=after_state, expected=_target(op, direction))
            if not took_effect and (after_state != before_state or new_edges):
                runner.violation(res, f'matrix:refused-but-state-changed:{base}:in-{before_state}:{direction.lower()}',
                                 after_state=after_state, edges=new_edges)
            for tt in t.get_tasks():
                tt.cancel()
        return True

    try:
        _, exceptions = _run_on_simloop(main, seed=params['seed'])
    except BaseException as exc:  # noqa
        res['inconclusive'] = f'{type(exc).__name__}: {exc}'
        exceptions = []
    finally:
        tm.deactivate()
        shutil.rmtree(tmp, ignore_errors=True)
    for e in exceptions:
        runner.violation(res, f"loop-exception:{e.get('exc_type')}", **e)
    tm.report(res)
    res['csigs'].append(f'matrix|{direction}|{state}')
    res['evaluations'] = len(rows)
    res['sample'] = {'kind': 'matrix', 'direction': direction, 'state': state,
                     'rows': [(op, list(o), after) for op, o, after in rows]}
    return res


# ---------------------------------------------------------------------------
# peer messages as requests: the handlers of the real manager are fed every transfer-related peer message for a
# transfer in every state (with the tasks the manager would have attached, incl. the retry attempt of a download
# that FAILED without a reason).  When every state operation the handler issued was refused, nothing about the
# transfer may have changed between the handler's entry and its return - tasks included.

class _StubPeerConnection:
    username = 'peer'
    hostname, port = '10.9.9.9', 2234

    def __init__(self):
        self.sent = []

    async def send_message(self, message):
        self.sent.append(message)

    def queue_message(self, message):
        self.sent.append(message)
        fut = asyncio.get_running_loop().create_future()
        fut.set_result(None)
        return fut

    async def disconnect(self, *a, **kw):
        pass


def _peer_messages(t, direction: str) -> list:
    from aioslsk.protocol.messages import (
        PeerPlaceInQueueRequest, PeerTransferQueue, PeerTransferQueueFailed, PeerTransferRequest, PeerUploadFailed)
    f = t.remote_path
    if direction == 'DOWNLOAD':
        return [
            ('queue-failed', '_on_peer_transfer_queue_failed', PeerTransferQueueFailed.Request(f, 'Banned')),
            ('upload-failed', '_on_peer_upload_failed', PeerUploadFailed.Request(f)),
            ('transfer-request', '_on_peer_transfer_request', PeerTransferRequest.Request(1, 4321, f, filesize=1000)),
        ]
    return [
        ('transfer-queue', '_on_peer_transfer_queue', PeerTransferQueue.Request(f)),
        ('transfer-request', '_on_peer_transfer_request', PeerTransferRequest.Request(0, 4321, f)),
        ('place-in-queue', '_on_peer_place_in_queue_request', PeerPlaceInQueueRequest.Request(f)),
    ]


def _run_peer_matrix(params: dict) -> dict:
    from ..monitors import _snapshot
    res = runner.new_result(params['case'])
    direction, state = params['direction'], params['state']
    tm = TransferMonitor()
    tm.activate()
    tmp = tempfile.mkdtemp(prefix='vf-c03-')
    rows = []
    variants = [{}]
    if state == 'FAILED':
        variants = [{'reason': 'Cancelled'}, {'reason': None}]
    if state in ('QUEUED', 'INCOMPLETE') and direction == 'DOWNLOAD':
        variants = [{'remotely_queued': False}, {'remotely_queued': True}]

    async def main(loop):
        bench = Bench(tmp, tm)
        for variant in variants:
            for k in range(3):
                t = await bench.new_transfer(direction)
                await bench.drive(t, state)
                if state == 'FAILED' and variant.get('reason') is None:
                    t.fail_reason = None
                if 'remotely_queued' in variant:
                    t.remotely_queued = variant['remotely_queued']
                # a download the manager retries has a remote-queue attempt in flight
                retried = direction == 'DOWNLOAD' and not t.remotely_queued and (
                    state in ('QUEUED', 'INCOMPLETE') or (state == 'FAILED' and t.fail_reason is None))
                if retried and t._remotely_queue_task is None:
                    t._remotely_queue_task = asyncio.ensure_future(_slow_task(2))
                    t._remotely_queue_task.add_done_callback(t._remotely_queue_task_complete)
                    await asyncio.sleep(0)
                name, handler, msg = _peer_messages(t, direction)[k]
                conn = _StubPeerConnection()
                n_ops = len(tm.ops)
                before = _snapshot(t)
                before_state = t.state.VALUE.name
                try:
                    await getattr(bench.manager, handler)(msg, conn)
                    outcome = 'returned'
                except Exception as exc:  # noqa
                    outcome = f'raised {type(exc).__name__}'
                after = _snapshot(t)
                after_state = t.state.VALUE.name
                key = tm.key(t)
                ops = [o for o in tm.ops[n_ops:] if o['transfer'] == key and 't_done' in o]
                accepted = [o for o in ops if o.get('result') is True]
                refused = [o for o in ops if o.get('result') is False]
                runner.add_obs(res, 'peer_matrix_cells')
                rows.append((name, variant, outcome, [(o['op'], o.get('result')) for o in ops], after_state))
                if refused and not accepted:
                    runner.add_obs(res, 'peer_requests_refused')
                    diff = {f: (before[f], after[f]) for f in after if before[f] != after[f]}
                    if after_state != before_state:
                        diff['state'] = (before_state, after_state)
                    if diff:
                        runner.violation(
                            res, f"refused-peer-request-side-effect:{name}:in-{before_state}:{direction.lower()}:" + '+'.join(sorted(diff)),
                            diff={f: [str(a), str(b)] for f, (a, b) in diff.items()}, variant=variant,
                            ops=[(o['op'], o.get('result')) for o in ops])
                for tt in t.get_tasks():
                    tt.cancel()
                await asyncio.sleep(0)
        if direction == 'UPLOAD':
            # the manager's own requests: the user of the upload gets blocked and the shares/block-list cycle
            # (manage_shares_changed) asks for an abort, while the upload's task finishes (complete / fail) in the
            # same or the next loop step - when the abort ends up refused, the abort reason must be untouched
            from aioslsk.settings import BlockingFlag
            for finishing in ('complete', 'fail', None):
                for stagger in (0, 1, 2):
                    t = await bench.new_transfer(direction)
                    await bench.drive(t, state)
                    bench.client.settings.users.blocked['peer'] = BlockingFlag.UPLOADS
                    n_ops = len(tm.ops)
                    reason_before = t.abort_reason
                    state_before = t.state.VALUE.name

                    async def finish():
                        for _ in range(stagger):
                            await asyncio.sleep(0)
                        if finishing == 'complete':
                            await t.state.complete()
                        elif finishing == 'fail':
                            await t.state.fail(reason='Cancelled')
                    await asyncio.gather(bench.manager.manage_shares_changed(), finish(), return_exceptions=True)
                    key = tm.key(t)
                    aborts = [o for o in tm.ops[n_ops:] if o['transfer'] == key and o['op'] == 'abort' and 't_done' in o]
                    runner.add_obs(res, 'manager_abort_races')
                    rows.append(('shares-changed', {'finishing': finishing, 'stagger': stagger}, 'returned',
                                 [(o['op'], o.get('result')) for o in aborts], t.state.VALUE.name))
                    if aborts and not any(o.get('result') is True for o in aborts):
                        runner.add_obs(res, 'manager_aborts_refused')
                        if t.abort_reason != reason_before:
                            runner.violation(
                                res, f"refused-manager-abort-side-effect:abort_reason:in-{state_before}:upload",
                                abort_reason=[str(reason_before), str(t.abort_reason)], finishing=finishing,
                                stagger=stagger, final_state=t.state.VALUE.name)
                    bench.client.settings.users.blocked.pop('peer', None)
                    for tt in t.get_tasks():
                        tt.cancel()
                    await asyncio.sleep(0)
        return True

    try:
        _, exceptions = _run_on_simloop(main, seed=params['seed'])
    except BaseException as exc:  # noqa
        res['inconclusive'] = f'{type(exc).__name__}: {exc}'
        exceptions = []
    finally:
        tm.deactivate()
        shutil.rmtree(tmp, ignore_errors=True)
    for e in exceptions:
        if e.get('exc_type') == 'CancelledError':
            continue
        runner.violation(res, f"loop-exception:{e.get('exc_type')}", **e)
    tm.report(res)
    res['csigs'].append(f'peer-matrix|{direction}|{state}')
    res['evaluations'] = len(rows)
    res['sample'] = {'kind': 'peer-matrix', 'direction': direction, 'state': state, 'rows': rows}
    return res


# ---------------------------------------------------------------------------

def _run_concurrent(params: dict) -> dict:
    res = runner.new_result(params['case'])
    rng = random.Random(f"{params['seed']}:C03:conc:{params['i']}")
    tm = TransferMonitor()
    tm.activate()
    tmp = tempfile.mkdtemp(prefix='vf-c03-')
    samples = []
    exec_delay = rng.choice([0.0, 0.01])

    async def main(loop):
        bench = Bench(tmp, tm)
        for sub in range(params['n']):
            direction = rng.choice(['DOWNLOAD', 'UPLOAD'])
            state = rng.choice(states_for(direction))
            k = rng.choice([2, 2, 3])
            # issuers: user API calls, peer messages (fail), the transfer task finishing (complete/incomplete/fail)
            pool = API_OPS + ['abort', 'pause', 'queue', 'fail', 'complete', 'incomplete', 'initialize', 'start_transferring']
            ops = [rng.choice(pool) for _ in range(k)]
            # make sure slow lock holders are frequent
            if rng.random() < 0.6:
                ops[0] = rng.choice(['api_abort', 'abort', 'api_pause', 'pause'])
            staggers = [0] + [rng.choice([0, 0, 1, 2, 3]) for _ in range(k - 1)]
            slow = rng.choice([0, 1, 2, 4])
            t = await bench.new_transfer(direction)
            await bench.drive(t, state, slow_steps=slow)
            n_ops0 = len(tm.ops)
            # application listeners behind the monitor's own: a slow one (suspends for a few loop steps) and a late
            # observer behind it, which judges every (old, new) it is told against the graph; one of the requesting
            # tasks may be cancelled while the notification is under way
            lrng = random.Random(f"{params['seed']}:C03:lst:{params['i']}:{sub}")
            late = None
            cancel_after = None
            if lrng.random() < 0.35:
                t.state_listeners.append(_SlowListener(lrng.choice([1, 2, 3, 5])))
                late = _LateObserver(direction)
                t.state_listeners.append(late)
                if lrng.random() < 0.6:
                    cancel_after = (lrng.randrange(k), lrng.randint(0, 8))

            # 'eager': the operation's coroutine object is created first (transfer.state is looked up NOW, as in
            # manage_shares_changed's tasks.append(upload.state.abort(...))) and awaited later; 'lazy': looked up
            # when the issuer runs
            eager = rng.random() < 0.5

            def make(op):
                if op.startswith('api_'):
                    return bench.apply(t, op)
                if op == 'fail':
                    return t.state.fail(reason='Cancelled')
                if op == 'abort':
                    return t.state.abort(reason='Requested')
                return getattr(t.state, op)()

            api_results: list = []

            async def issue(op, delay, coro=None):
                for _ in range(delay):
                    await asyncio.sleep(0)
                if coro is not None:
                    r = await coro
                    r = r if isinstance(r, tuple) else ('ok', r)
                else:
                    r = await bench.apply(t, op)
                if op.startswith('api_'):
                    # M3 under overlap: the public call returns normally iff the operation it issued was accepted
                    api_results.append((op, r, id(asyncio.current_task())))
                return r
            if eager:
                coros = [make(o) for o in ops]
                op_tasks = [asyncio.ensure_future(issue(o, d, c)) for o, d, c in zip(ops, staggers, coros)]
                # api_* coroutines raise InvalidStateTransition through bench.apply (already mapped)
            else:
                op_tasks = [asyncio.ensure_future(issue(o, d)) for o, d in zip(ops, staggers)]
            if cancel_after is not None:
                for _ in range(cancel_after[1]):
                    await asyncio.sleep(0)
                if not op_tasks[cancel_after[0]].done():
                    op_tasks[cancel_after[0]].cancel()
                    runner.add_obs(res, 'requests_cancelled_mid_flight')
            outcomes = await asyncio.gather(*op_tasks, return_exceptions=True)
            for op, r, task_id in api_results:
                base = op[4:]
                mine = [o for o in tm.ops[n_ops0:] if o.get('task') == task_id and o['op'] == base and 't_done' in o]
                if not mine:
                    continue
                runner.add_obs(res, 'api_calls_judged_under_overlap')
                accepted = any(o.get('result') is True for o in mine)
                returned = r == ('ok', True)
                if returned != accepted:
                    runner.violation(
                        res, f"concurrent:api-{'returned-although-refused' if returned else 'raised-although-accepted'}:{base}:{direction.lower()}",
                        ops=ops, state=state, staggers=staggers, outcome=list(r) if isinstance(r, tuple) else repr(r),
                        records=[(o['op'], o.get('actual'), o.get('result')) for o in mine], final=t.state.VALUE.name)
            if late is not None:
                runner.add_obs(res, 'late_observer_edges', late.seen)
                for edge in late.bad:
                    runner.violation(res, f'illegal-edge-seen-by-a-later-listener:{edge[0]}->{edge[1]}:{direction.lower()}',
                                     ops=ops, state=state, staggers=staggers, cancel_after=cancel_after)
            runner.add_obs(res, 'eager_lookup_cases' if eager else 'lazy_lookup_cases')
            for o in outcomes:
                if isinstance(o, BaseException) and not isinstance(o, asyncio.CancelledError):
                    runner.violation(res, f'concurrent:unexpected-exception:{type(o).__name__}', ops=ops, state=state,
                                     direction=direction, exc=repr(o))
            await asyncio.sleep(0.05)
            recs = tm.ops[n_ops0:]
            order = [r['op'] for r in sorted((r for r in recs if 't_lock' in r), key=lambda r: r['t_lock'])]
            if recs:
                res['csigs'].append(f"conc|{state}|{direction}|{sorted(ops)}|{order}")
            if len(samples) < 2:
                samples.append({'state': state, 'direction': direction, 'ops': ops, 'staggers': staggers, 'slow': slow,
                                'outcomes': [list(o) if isinstance(o, tuple) else repr(o) for o in outcomes],
                                'final': t.state.VALUE.name,
                                'lock_order': order})
            for tt in t.get_tasks():
                tt.cancel()
            runner.add_cover(res, 'start_states', f'{direction[0]}:{state}')
        return True

    try:
        _, exceptions = _run_on_simloop(main, exec_delay=exec_delay, seed=f"{params['seed']}:{params['i']}")
    except BaseException as exc:  # noqa
        res['inconclusive'] = f'{type(exc).__name__}: {exc}'
        exceptions = []
    finally:
        tm.deactivate()
        shutil.rmtree(tmp, ignore_errors=True)
    for e in exceptions:
        if e.get('exc_type') == 'CancelledError':
            continue
        runner.violation(res, f"loop-exception:{e.get('exc_type')}", **e)
    tm.report(res)
    res['evaluations'] = params['n']
    res['sample'] = {'kind': 'concurrent', 'cases': samples}
    return res


# ---------------------------------------------------------------------------

def _run_live(params: dict) -> dict:
    """Two real clients; user calls land at seeded instants during a transfer."""
    from ..simnet import ConnPlan
    from ..xfer import make_source, setup_pair, state_name
    res = runner.new_result(params['case'])
    seed = params['seed']
    rng = random.Random(f"{seed}:C03:live:{params['i']}")
    size = rng.choice([8192, 50000, 100000, 300000])
    limits = rng.choice([(0, 0), (8, 0), (0, 8), (16, 16), (32, 0)])
    source = make_source(('c03', seed, params['i']), size)
    tm = TransferMonitor()
    script = []
    n_events = rng.randint(1, 4)
    t_acc = 0.0
    for _ in range(n_events):
        t_acc += rng.choice([0.0, 0.005, 0.01, 0.02, 0.05, 0.1, 0.2, 0.5, 1.0, 2.0])
        who = rng.choice(['dn', 'dn', 'up'])
        ops = [rng.choice(['abort', 'pause', 'queue']) for _ in range(rng.choice([1, 1, 2, 3]))]
        script.append((round(t_acc, 3), who, ops, rng.choice([0, 1, 2])))
    outcomes = []

    async def main(w: World):
        from aioslsk.exceptions import InvalidStateTransition, TransferNotFoundError
        await w.start_server()
        pair = await setup_pair(w, {'file.bin': source})
        up, dn = pair.up, pair.dn
        if limits[0]:
            up.client.network.set_upload_speed_limit(limits[0])
        if limits[1]:
            dn.client.network.set_download_speed_limit(limits[1])
        w.net.planner = lambda node, host, port, attempt: ConnPlan(latency=rng.uniform(0.001, 0.03))
        remote_path = next(iter(pair.sources))
        t = await dn.call(dn.client.transfers.download('up', remote_path))
        t0 = w.loop.time()

        async def user_op(handle, op, delay):
            for _ in range(delay):
                await asyncio.sleep(0)
            mgr = handle.client.transfers
            target = t if handle is dn else (mgr.transfers[0] if mgr.transfers else None)
            if target is None:
                return (op, 'no-transfer')
            try:
                await getattr(mgr, op)(target)
                return (op, 'ok')
            except InvalidStateTransition:
                return (op, 'InvalidStateTransition')
            except TransferNotFoundError:
                return (op, 'TransferNotFoundError')

        for at, who, ops, stagger in script:
            wait = t0 + at - w.loop.time()
            if wait > 0:
                await asyncio.sleep(wait)
            handle = dn if who == 'dn' else up
            r = await asyncio.gather(*[handle.call(user_op(handle, op, i * stagger)) for i, op in enumerate(ops)],
                                     return_exceptions=True)
            outcomes.append((round(w.now, 3), who, [x if isinstance(x, tuple) else repr(x) for x in r]))
            for x in r:
                if isinstance(x, BaseException):
                    tm.violations.append((f'live:user-call-raised:{type(x).__name__}', {'exc': repr(x), 'who': who, 'ops': ops}))
        await settle(30.0)
        final = {'dn': state_name(t), 'up': [state_name(u) for u in up.client.transfers.transfers]}
        await w.stop_clients()
        return final

    out = run_world(f"{seed}:C03:live:{params['i']}", main, wall_timeout=120, exec_delay=rng.choice([0.0, 0.01]),
                    monitors=[tm])
    tm.deactivate()
    if out.inconclusive:
        res['inconclusive'] = out.inconclusive
        return res
    tm.report(res)
    for sig, detail in safety_net_violations(out):
        runner.violation(res, 'safety:' + sig, **detail)
    order = [(r['op'], r.get('actual')) for r in tm.ops if 't_lock' in r][:30]
    if tm.counters['m2_ops']:
        res['csigs'].append(f"live|{[(w_, o) for _, w_, o, _ in script]}|{order}")
    res['sample'] = {'kind': 'live', 'size': size, 'limits': limits, 'script': script, 'outcomes': outcomes,
                     'final': out.result, 'edges': [(e[0], e[2][0], e[3], e[4]) for e in tm.edges][:30]}
    return res
