"""C04 — COMPLETE means intact; resume never corrupts (DESIGN §4 C04)."""
from __future__ import annotations

import asyncio
import os
import random

from .. import runner
from ..monitors import ConnMonitor, TransferMonitor, safety_net_violations
from ..simloop import settle
from ..simnet import ConnPlan
from ..world import World, run_world
from ..xfer import FileConn, make_source, setup_pair, state_name, wait_until

ID = 'C04'
LEVEL = 'fault_enumeration'
QUICK_SCALE = 1.5      # the quick tier was enlarged by this factor after MIN_OBS['quick'] was measured
RULE = ("kind=pair: two real clients + scripted server on the simulated net; one download of a file of a boundary "
        "size; a fault plan cuts the file connection (RST / silent loss ending in ETIMEDOUT after 900 s / FIN) when the file position reaches K on "
        "attempts 1..3, or inside the 4-byte ticket / 8-byte offset, then faults stop; seeded segmentation, "
        "latencies, connect mode (race/fallback), direct or indirect (firewalled) file connections, bandwidth "
        "limits on/off, thread-pool latency; variants: the local partial file is truncated between attempts, the "
        "user pauses and re-queues in mid-transfer, the uploader's first file connection arrives around the "
        "downloader's 60 s wait (direct attempt hangs, the server relays the connect-to-peer request 40-55 s late). "
        "kind=dishonest: one real client against a scripted peer that sends too few / too many bytes or announces an "
        "offset beyond the size, optionally followed by a user re-queue of the FAILED download against an honest "
        "second attempt. Oracle: conservation over the taps "
        "(delivered payload == source[offset:...], local file append-only and a prefix of the source), whole-file "
        "comparison at every COMPLETE notification, offset on the wire == local size at that moment, uploader "
        "COMPLETE only after writing every byte from the offset on a connection that has ended, and bounded "
        "progress (both sides COMPLETE within 2 virtual hours after the last RST/ETIMEDOUT fault). Non-trivial = "
        "payload bytes were observed and >= 1 oracle was evaluated; distinct = (kind, size class, cut classes, "
        "path, mode, order of negotiation events).")
ASSUMPTIONS = [
    "an orderly FIN from the uploader in mid-transfer is the protocol's way of cancelling: the download may end "
    "FAILED('Cancelled') and bounded progress is then not demanded (statement: 'INCOMPLETE (or FAILED with a reason)')",
    "a connection ended by RST after the last payload byte counts as 'the peer closed the connection'",
    "silent packet loss (no RST/FIN, ETIMEDOUT after 900 s) is outside the property's quantifier ('connection reset / EOF "
    "after k bytes'): such runs are judged for corruption/offset rules only; observed there: the uploader ignores "
    "PeerTransferQueue while still UPLOADING and later reports COMPLETE, the downloader stays INCOMPLETE with "
    "remotely_queued set (counter not_converged_outside_quantifier)",
    "harness frames are built with the repository's message classes (plain values pinned by the unit-test vectors)",
    "disk-full / short writes are not modelled",
]
MIN_OBS = {'quick': {'payload_conns': 100, 'complete_checks': 80, 'offset_checks': 100},
           'thorough': {'payload_conns': 3000, 'complete_checks': 2500, 'offset_checks': 3000}}
SHARD_TIMEOUT = {'quick': 900, 'thorough': 7200}

CHUNK = 8192
SIZES = [0, 1, 127, 128, 129, 8191, 8192, 8193, 3 * 8192 + 5, 100000]
PROGRESS_BOUND = 7200.0


def cases(tier: str, seed: int) -> list[dict]:
    rng = random.Random(f'{seed}:C04:cases')
    out = []

    def add(**kw):
        kw['seed'] = seed
        kw['n'] = len(out)
        out.append(kw)

    # systematic part: every size x {no fault, early, mid, last-byte} x modes
    for size in SIZES:
        add(kind='pair', size=size, cuts=[])
        if size == 0:
            add(kind='pair', size=size, cuts=[], path='indirect')
            continue
        for mode in ('rst', 'timeout', 'eof'):
            for where in ('first', 'mid', 'last', 'after-last'):
                k = {'first': 0, 'mid': size // 2, 'last': size - 1, 'after-last': size}[where]
                if size == 1 and where == 'mid':
                    continue
                add(kind='pair', size=size, cuts=[{'at': 'file', 'K': k, 'mode': mode}])
    # header cuts
    for at, rng_k in (('ticket', range(0, 5)), ('offset', range(0, 9))):
        for k in rng_k:
            add(kind='pair', size=8193, cuts=[{'at': at, 'K': k, 'mode': 'rst'}])
    n_random = 110 if tier == 'quick' else 8000
    for _ in range(n_random):
        size = rng.choice(SIZES[1:] + [rng.randint(2, 40000)])
        ncuts = rng.choice([1, 1, 2, 3])
        ks = sorted(rng.randint(0, size) for _ in range(ncuts))
        cuts = [{'at': 'file', 'K': k, 'mode': rng.choice(['rst', 'rst', 'timeout'])} for k in ks]
        add(kind='pair', size=size, cuts=cuts, randomize=True)
    # the local partial file changes between attempts (truncated by the user / another program) and
    # user pause + re-queue in mid-transfer: the resume offset must follow the file, not a counter
    n_var = 70 if tier == 'quick' else 2500
    for i in range(n_var):
        size = rng.choice([8193, 3 * 8192 + 5, 100000])
        k = rng.randint(1, size - 1)
        if i % 2 == 0:
            add(kind='pair', size=size, cuts=[{'at': 'file', 'K': k, 'mode': 'rst'}], truncate=True)
        else:
            add(kind='pair', size=size, cuts=[], pause=True)
    # the uploader's first file connection arrives late: its direct attempt hangs until the connect timeout and the
    # server relays the connect-to-peer request after a delay, around the downloader's 60 s wait for the connection
    n_late = 24 if tier == 'quick' else 600
    for i in range(n_late):
        add(kind='pair', size=rng.choice([129, 8193, 20000]), cuts=[], late_file_conn=rng.choice([40.0, 49.0, 49.9, 50.1, 51.0, 55.0]))
    n_dis = 70 if tier == 'quick' else 3000
    for i in range(n_dis):
        add(kind='dishonest', i=i)
    if tier == 'thorough':
        # exhaustive sub-space: every cut point for sizes <= 300
        for size in (1, 2, 127, 128, 129, 300):
            for k in range(0, size + 1):
                add(kind='pair', size=size, cuts=[{'at': 'file', 'K': k, 'mode': 'rst'}], exhaustive=True)
    return out


def run_case(params: dict) -> dict:
    if params['kind'] == 'pair':
        return _run_pair(params)
    return _run_dishonest(params)


# ---------------------------------------------------------------------------

def _size_class(size: int) -> str:
    if size == 0:
        return '0'
    if size < CHUNK:
        return '<chunk' if size not in (127, 128, 129) else f'{size}'
    if size in (CHUNK - 1, CHUNK, CHUNK + 1):
        return f'chunk{size - CHUNK:+d}'
    return 'multi'


def _run_pair(params: dict) -> dict:
    res = runner.new_result(params['case'])
    seed = params['seed']
    rng = random.Random(f"{seed}:C04:{params['n']}")
    size = params['size']
    cuts = list(params['cuts'])
    randomize = params.get('randomize', True)
    path = params.get('path') or rng.choice(['direct', 'direct', 'indirect'])
    mode = rng.choice(['race', 'fallback'])
    late = params.get('late_file_conn')
    if late:
        path, mode = 'direct', 'fallback'
    seg = rng.choice(['random', 'random', 'bytes1' if size <= 300 else 'fixed:1000', 'whole'])
    limits = rng.choice([(0, 0), (0, 0), (64, 0), (0, 64), (32, 32)])
    if params.get('pause'):
        limits = rng.choice([(32, 0), (0, 32), (16, 16)])
    exec_delay = rng.choice([0.0, 0.0, 0.02])
    ctl_lat = rng.choice([(0.0005, 0.004), (0.01, 0.05), (0.0, 0.0)])
    file_lat = rng.choice([(0.0005, 0.004), (0.01, 0.05), (0.0, 0.0)])

    source = make_source((seed, params['n']), size)
    tm = TransferMonitor()
    cm = ConnMonitor()
    obs = {'complete_checks': 0, 'offset_checks': 0, 'prefix_checks': 0, 'payload_conns': 0}
    viol: list = []
    trace: list = []

    async def main(w: World):
        from aioslsk.network.network import PeerConnectMode
        from aioslsk.settings import NetworkLimitSettings
        await w.start_server()
        up_kw = {}
        pair = await setup_pair(w, {'file.bin': source})
        up, dn = pair.up, pair.dn
        for h in (up, dn):
            h.client.settings.network.peer.connect_mode = PeerConnectMode.RACE if mode == 'race' else PeerConnectMode.FALLBACK
        if limits[0]:
            up.client.network.set_upload_speed_limit(limits[0])
        if limits[1]:
            dn.client.network.set_download_speed_limit(limits[1])
        remote_path = next(iter(pair.sources))
        state = {'attempt': 0, 'last_fault_t': None, 'dn_t': None}

        def planner(node, host, port, attempt):
            plan = ConnPlan(latency=rng.uniform(0.001, 0.03), seg=seg, seg_lat=ctl_lat)
            if path == 'indirect' and node == 'up' and port in (dn.port, dn.obf_port):
                plan.connect = rng.choice(['refuse', 'refuse', 'hang'])
            if late and node == 'up' and port in (dn.port, dn.obf_port) and state.get('late_phase') == 'armed':
                plan.connect = 'hang'          # the direct attempt for the file connection runs into its timeout
                state['late_phase'] = 'direct-hanging'
                trace.append((round(w.now, 4), 'late: direct attempt of the uploader hangs'))
            return plan
        w.net.planner = planner
        if late:
            from aioslsk.protocol.messages import ConnectToPeer, PeerTransferReply

            def relay_late(session, msg):
                # the first connect-to-peer request for a file connection is relayed late, once
                if session.username == 'up' and msg.typ == 'F' and state.get('late_phase') == 'direct-hanging':
                    state['late_phase'] = 'done'
                    trace.append((round(w.now, 4), 'late: server holds the relay for', late))

                    async def later():
                        await asyncio.sleep(late)
                        w.server._handle(session, msg)
                    w.spawn('srv', later(), name='vf-late-relay')
                    return True
                return False
            w.server.overrides[ConnectToPeer.Request] = relay_late

        def local_size(fc: FileConn):
            t = state['dn_t']
            if t is None or not t.local_path or not os.path.exists(t.local_path):
                return 0
            return os.path.getsize(t.local_path)
        pair.cls.local_size_of = local_size

        def on_file_conn(fc: FileConn):
            fc.conn.plan.seg_lat = file_lat
            # header cuts apply to the first file connection(s) only
            for c in cuts:
                if c.get('used'):
                    continue
                if c['at'] == 'ticket':
                    d = fc.payload_dir
                    fc.conn.plan.cut_dir, fc.conn.plan.cut_after, fc.conn.plan.cut_mode = d, fc.prefix[d] + c['K'], c['mode']
                    c['used'] = True
                    trace.append((round(w.now, 4), 'plan-cut', 'ticket', c['K'], fc.conn.id))
                elif c['at'] == 'offset':
                    d = 'b2a' if fc.payload_dir == 'a2b' else 'a2b'
                    fc.conn.plan.cut_dir, fc.conn.plan.cut_after, fc.conn.plan.cut_mode = d, fc.prefix[d] + c['K'], c['mode']
                    c['used'] = True
                    trace.append((round(w.now, 4), 'plan-cut', 'offset', c['K'], fc.conn.id))
                break
        pair.cls.on_file_conn = on_file_conn

        def on_offset(fc: FileConn):
            obs['offset_checks'] += 1
            trace.append((round(w.now, 4), 'offset', fc.offset, 'local', fc.offset_local_size, fc.conn.id))
            if fc.offset != fc.offset_local_size:
                viol.append(('resume-offset-mismatch', {'offset_on_wire': fc.offset, 'local_size': fc.offset_local_size,
                                                        'attempt': fc.index}))
            for c in cuts:
                if c.get('used') or c['at'] != 'file':
                    continue
                k = c['K'] - fc.offset
                c['used'] = True
                if k < 0:
                    trace.append((round(w.now, 4), 'skip-cut', c['K']))
                    continue
                d = fc.payload_dir
                fc.conn.plan.cut_dir, fc.conn.plan.cut_after, fc.conn.plan.cut_mode = d, fc.prefix[d] + k, c['mode']
                trace.append((round(w.now, 4), 'plan-cut', 'file', c['K'], c['mode'], fc.conn.id))
                break
        pair.cls.on_offset = on_offset

        t = await dn.call(dn.client.transfers.download('up', remote_path))
        state['dn_t'] = t

        def on_edge(transfer, old, new):
            trace.append((round(w.now, 4), transfer.direction.name[0], old, new))
            if late and transfer is t and new == 'INITIALIZING' and 'late_phase' not in state:
                state['late_phase'] = 'armed'       # the uploader's next connect to the downloader is the file connection
            if transfer is t and params.get('truncate') and old == 'DOWNLOADING' and new == 'INCOMPLETE' \
                    and not state.get('truncated'):
                lp = transfer.local_path
                if lp and os.path.exists(lp) and os.path.getsize(lp) > 1:
                    state['truncated'] = True
                    new_len = rng.randint(0, os.path.getsize(lp) - 1)
                    # done after the prefix check below has seen the untouched file
                    state['truncate_to'] = (lp, new_len)
            if transfer is t:
                if old == 'DOWNLOADING':
                    lp = transfer.local_path
                    data = open(lp, 'rb').read() if lp and os.path.exists(lp) else b''
                    obs['prefix_checks'] += 1
                    if data != source[:len(data)]:
                        viol.append(('local-file-not-a-prefix', {'edge': f'{old}->{new}', 'local_len': len(data),
                                                                 'first_diff': _first_diff(data, source)}))
                    if new == 'FAILED' and transfer.fail_reason is None:
                        viol.append(('download-failed-without-reason', {'edge': f'{old}->{new}'}))
                    if state.get('truncate_to'):
                        lp2, new_len = state.pop('truncate_to')
                        with open(lp2, 'r+b') as fh:
                            fh.truncate(new_len)
                        trace.append((round(w.now, 4), 'harness-truncated-local-file', new_len))
                if new == 'COMPLETE':
                    obs['complete_checks'] += 1
                    lp = transfer.local_path
                    data = open(lp, 'rb').read() if lp and os.path.exists(lp) else None
                    if data != source:
                        viol.append(('download-complete-not-intact', {
                            'local_len': None if data is None else len(data), 'size': size, 'announced': transfer.filesize,
                            'first_diff': None if data is None else _first_diff(data, source)}))
                    if transfer.filesize != size:
                        viol.append(('download-complete-size-mismatch', {'announced': transfer.filesize, 'size': size}))
            elif transfer.is_upload() and new == 'COMPLETE':
                obs['complete_checks'] += 1
                fcs = [fc for fc in pair.cls.file_conns if fc.offset is not None and fc.ticket is not None]
                fc = fcs[-1] if fcs else None
                if fc is None:
                    viol.append(('upload-complete-without-file-connection', {}))
                else:
                    written = fc.payload(delivered=False)
                    if written != source[fc.offset:]:
                        viol.append(('upload-complete-bytes-missing', {
                            'offset': fc.offset, 'written': len(written), 'expected': size - fc.offset}))
                    up_tr = fc.conn.a if fc.uploader_side == 'a' else fc.conn.b
                    if not (up_tr._rx_eof or up_tr._lost or up_tr._closing):
                        viol.append(('upload-complete-before-peer-closed', {'offset': fc.offset}))
        tm.edge_hooks.append(on_edge)

        async def pauser():
            # pause while the download is running, re-queue a little later (several rounds)
            for _ in range(rng.randint(1, 3)):
                for _ in range(4000):
                    if state_name(t) == 'DOWNLOADING' and t.bytes_transfered > 0:
                        break
                    if state_name(t) == 'COMPLETE':
                        return
                    await asyncio.sleep(rng.choice([0.001, 0.003, 0.01]))
                try:
                    await dn.client.transfers.pause(t)
                    trace.append((round(w.now, 4), 'user-pause', t.bytes_transfered))
                except Exception as exc:  # noqa
                    trace.append((round(w.now, 4), 'user-pause-refused', type(exc).__name__))
                await asyncio.sleep(rng.choice([0.0, 0.05, 1.0]))
                try:
                    await dn.client.transfers.queue(t)
                    trace.append((round(w.now, 4), 'user-queue'))
                except Exception as exc:  # noqa
                    trace.append((round(w.now, 4), 'user-queue-refused', type(exc).__name__))
        if params.get('pause'):
            w.spawn('dn', pauser(), name='vf-pauser')

        def both_complete():
            ups = up.client.transfers.transfers
            return state_name(t) == 'COMPLETE' and len(ups) == 1 and state_name(ups[0]) == 'COMPLETE'

        # run until all planned faults happened and both sides are complete, or the bound expires
        deadline_after_fault = None
        t_end = w.loop.time() + 3 * PROGRESS_BOUND
        while w.loop.time() < t_end:
            await asyncio.sleep(1.0)
            pending_cuts = [c for c in cuts if not c.get('used')]
            applied = [fc for fc in pair.cls.file_conns if fc.conn.plan.cut_dir is not None]
            all_fired = not pending_cuts and all(fc.conn.cut_done or fc.conn.a._lost for fc in applied)
            if both_complete():
                break
            if all_fired and deadline_after_fault is None:
                deadline_after_fault = w.loop.time() + PROGRESS_BOUND
            if deadline_after_fault is not None and w.loop.time() > deadline_after_fault:
                break
            if state_name(t) == 'FAILED' and t.fail_reason is not None and all_fired:
                # terminal with a reason (e.g. 'Cancelled' after a FIN): give it some time, then stop
                if deadline_after_fault is not None and w.loop.time() > deadline_after_fault - PROGRESS_BOUND + 600:
                    break
        await settle(2.0)
        ups = up.client.transfers.transfers
        final = {
            'dn_state': state_name(t), 'dn_fail_reason': t.fail_reason,
            'up_states': [state_name(u) for u in ups], 'up_fail_reasons': [u.fail_reason for u in ups],
            'file_conns': len(pair.cls.file_conns), 'virtual_s': round(w.now, 1),
            'cuts_used': [bool(c.get('used')) for c in cuts],
            'dead_tasks': up.dead_background_tasks() + dn.dead_background_tasks(),
            'dn_remotely_queued': t.remotely_queued,
        }
        # conservation per file connection
        for fc in pair.cls.file_conns:
            if fc.offset is None:
                continue
            delivered = fc.payload(delivered=True)
            if delivered:
                obs['payload_conns'] += 1
            if delivered != source[fc.offset:fc.offset + len(delivered)]:
                viol.append(('payload-not-source-at-offset', {'offset': fc.offset, 'delivered': len(delivered),
                                                              'first_diff': _first_diff(delivered, source[fc.offset:])}))
        lp = t.local_path
        data = open(lp, 'rb').read() if lp and os.path.exists(lp) else b''
        if data != source[:len(data)]:
            viol.append(('local-file-not-a-prefix', {'edge': 'final', 'local_len': len(data),
                                                     'first_diff': _first_diff(data, source)}))
        modes = {c['mode'] for c in cuts}
        # bounded progress is demanded for the faults the quantifier names (reset); a FIN is a
        # cancel (see ASSUMPTIONS); silent loss ('timeout') is outside the quantifier: it is run
        # for the never-corrupt rules and its convergence is only counted
        demand_progress = modes <= {'rst'}
        if not demand_progress and not both_complete():
            obs['not_converged_outside_quantifier'] = obs.get('not_converged_outside_quantifier', 0) + 1
        if demand_progress and not both_complete():
            # the signature names the shape of the deadlock, not the size or the cut point
            rq = '+remotely_queued' if t.remotely_queued else ''
            ustate = '/'.join(sorted(set(final['up_states']))) or 'none'
            sig_nc = f"no-convergence:dn-{final['dn_state']}{rq}:up-{ustate}"
            if t.remotely_queued and ustate == 'COMPLETE' and final['dn_state'] in ('INCOMPLETE', 'QUEUED'):
                # one mechanism: the downloader's renewed PeerTransferQueue reached the uploader while the
                # previous upload attempt was still in progress (ignored), the uploader then finished COMPLETE
                sig_nc = 'no-convergence:requeue-request-lost-while-previous-upload-in-progress'
            viol.append((sig_nc,
                         dict(final, size_class=_size_class(size), modes=sorted(modes))))
        if not demand_progress and final['dn_state'] not in ('COMPLETE', 'INCOMPLETE', 'FAILED', 'QUEUED', 'INITIALIZING', 'DOWNLOADING'):
            viol.append(('after-fin-bad-state', dict(final)))
        tm.edge_hooks.clear()      # shutdown is not part of the judged history
        await w.stop_clients()
        return final

    out = run_world(f"{seed}:C04:{params['n']}", main, wall_timeout=180, exec_delay=exec_delay, monitors=[tm, cm])
    tm.deactivate()
    if out.inconclusive:
        res['inconclusive'] = out.inconclusive
        return res
    final = out.result
    for sig, detail in viol:
        runner.violation(res, sig, **detail, params_summary={'size': size, 'cuts': params['cuts'], 'path': path, 'mode': mode},
                         trace=trace[-40:])
    for sig, detail in safety_net_violations(out):
        runner.violation(res, 'safety:' + sig, **detail)
    # passive C03 / C10 monitors: their verdicts belong to C03 / C10 (which replay
    # these workloads); here only what they observed is counted
    for k, v in list(tm.counters.items()) + list(cm.counters.items()):
        runner.add_obs(res, 'passive_' + k, v)
    runner.add_obs(res, 'passive_c03_reports', len(tm.violations))
    runner.add_obs(res, 'passive_c10_reports', len(cm.violations))
    for k, v in obs.items():
        runner.add_obs(res, k, v)
    order = '>'.join(f'{e[1]}{e[2][:3]}{e[3][:3]}' if e[1] in ('U', 'D') else str(e[1]) for e in trace[:24])
    if obs['payload_conns'] and (obs['complete_checks'] or obs['prefix_checks']):
        res['csigs'].append(f"pair|{_size_class(size)}|{[(c['at'], c['mode'], _kclass(c['K'], size)) for c in params['cuts']]}|{path}|{mode}|{order}")
    runner.add_cover(res, 'size_classes', _size_class(size))
    for c in params['cuts']:
        runner.add_cover(res, 'cut_classes', f"{c['at']}:{c['mode']}:{_kclass(c['K'], size)}")
    runner.add_cover(res, 'paths', f'{path}/{mode}')
    res['sample'] = {'size': size, 'cuts': params['cuts'], 'path': path, 'mode': mode, 'seg': seg, 'limits': limits,
                     'final': final, 'trace': trace[:30]}
    return res


def _kclass(k: int, size: int) -> str:
    if k == 0:
        return 'first'
    if k == size:
        return 'after-last'
    if k == size - 1:
        return 'last'
    if k % CHUNK == 0:
        return 'chunk-boundary'
    return 'mid'


def _first_diff(a: bytes, b: bytes):
    for i in range(min(len(a), len(b))):
        if a[i] != b[i]:
            return i
    return min(len(a), len(b)) if len(a) != len(b) else None


# ---------------------------------------------------------------------------

def _run_dishonest(params: dict) -> dict:
    from ..dishonest import run_dishonest
    res = runner.new_result(params['case'])
    run_dishonest(res, params)
    return res
