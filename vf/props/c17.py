"""C17 — Transfers survive a restart: nothing lost, duplicated or left 'in progress' (DESIGN §4 C17)."""
from __future__ import annotations

import asyncio
import collections
import os
import random
import shutil
import tempfile

from .. import runner
from ..monitors import TransferMonitor, op_allowed, safety_net_violations
from ..simloop import SimLoop, install_time_shims, settle
from ..simnet import NODE, ConnPlan
from ..world import World, run_world
from ..xfer import FileConn, make_source, setup_pair, state_name, wait_until

ID = 'C17'
LEVEL = 'exploration'
QUICK_SCALE = 2.5      # the quick tier was enlarged by this factor after MIN_OBS['quick'] was measured
RULE = ("kind=lists (batches of 25): a list of 0..8 Transfer objects, each driven into a state of every state x "
        "direction through the legal state methods and then given seeded fields (local_path None/ASCII/non-ASCII, "
        "filesize None/0/n, bytes 0/<size/==size/>size, fail/abort reasons incl. None with ABORTED, place in queue, "
        "remotely_queued, attempts, times), non-ASCII identities, identities whose user+path CONCATENATION coincides, "
        "both directions of one (user, path), legacy records (pickled without abort_reason, with _offset / "
        "bytes_written / bytes_read, the shape of the repository's own fixture tests/unit/resources/data/transfers.*, "
        "which is also loaded as one sub-case); the list lives in a real TransferManager of a not-started client "
        "with the real TransferShelveCache in a per-case temp directory; history = 1..3 rounds of (mutate through "
        "legal state methods / field changes, remove through manager.remove, add incl. re-adding a removed identity, "
        "write through write_cache / store_data), optionally a restart between rounds and optionally unsaved changes "
        "after the last write; at every restart the shelf is read raw (cache.read) and loaded into a FRESH client "
        "(load_data) and judged against the snapshot taken at the last write. The harness plays the application: "
        "it follows the list through the return of add()/remove() and TransferAddedEvent/TransferRemovedEvent, and "
        "the snapshot of a write is the snapshot of THAT list; in part of the sub-cases the application persists on "
        "change (a listener on both events calls write_cache(), synchronously or after / before 0-3 loop steps) and "
        "the process ends after such a write without any other write (also a write that falls inside the "
        "notification of a removal); removals whose task is cancelled while a suspending listener of "
        "TransferRemovedEvent is awaited (the application was told: the transfer counts as removed). Writes that "
        "are followed by a restart are in part done in the STORED FORMAT OF THE PINNED COMMIT, frozen in this "
        "module as data (pickled attribute dict, state by value, key sha256(user+path+direction), pickle protocol "
        "3 or 4, the older fixture layout for legacy records) without the class under test taking part - a cache "
        "left behind by the previous version, incl. remotely_queued=True on QUEUED / INCOMPLETE downloads; three "
        "written-out sub-cases of case 0 are the minimal forms (pinned-remotely-queued, persist-remove-end, "
        "cancelled-removal). kind=crash: two real clients with "
        "shelve caches transfer 20-200 KB on the simulated net (optional bandwidth limits, optional one RST cut); at "
        "a seeded instant tied to a state edge (queued / initializing / transferring / incomplete / first complete / "
        "both complete / random) the victims (both, downloader, uploader) end: either write_cache() (the last "
        "periodic write), 0-5 s later all their tasks are cancelled, their connections reset and listeners closed "
        "without stop(); or stop() (which writes the cache). In part of the runs the last write is done in the "
        "pinned stored format; the application persists on change (listener on TransferAdded/Removed/ProgressEvent "
        "calling write_cache(), sync or suspending) and the process ends after the last listener write; the user "
        "removes the download at the instant (remove() completes, or its task is cancelled inside the removal "
        "notification and the client is then stopped). START-UP ORDER: at every judged restart of kind=lists a "
        "further client on a copy of the cache goes through client.start(connect=False) (load_data() of all "
        "services, then start() of all services; no login, no call of manage_transfers by the harness), and in a "
        "third of the crash runs the new client logs in 1 virtual second after start(): within that second (four "
        "of the longest management intervals) the management job must have run a cycle and started to work on "
        "every loaded download that is eligible and on at least one eligible upload (wrappers on "
        "manage_transfers / _queue_remotely / _initialize_upload). New clients with the same names, ports, directories "
        "and caches are started; the loaded managers are judged inside load_data(), the run continues for up to 2 "
        "virtual hours, the resumed download is checked like C04 (offset on the wire == local size, COMPLETE => "
        "file == source), and after the final stop() the caches are loaded once more into fresh managers. "
        "Non-trivial = at least one load was judged; distinct = (kind, multiset of (state, direction), history "
        "shape) resp. (end mode, victims, persisted states of both sides, cut).")
ASSUMPTIONS = [
    "the set 'written' is the application's view of the list at the last write: transfers returned by add() / "
    "announced by TransferAddedEvent, minus those for which remove() returned or TransferRemovedEvent was emitted "
    "('Emitted when a transfer has been detached from the client', 'Emits a TransferRemovedEvent after removal'); "
    "transfers are identified like the library's own Transfer.__eq__ does (remote_path, username, direction)",
    "a record in the stored format of the pinned commit is what a user upgrading the library has on disk: it must "
    "load under the same rules (in particular remotely_queued cleared and the download scheduled again); when two "
    "transfers of such a list share the pinned key (the fixed concatenation collision) the later one is the "
    "stored one, as that commit's writer left it",
    "a transfer stored as DOWNLOADING/UPLOADING with bytes_transfered > filesize may be loaded COMPLETE or INCOMPLETE "
    "(the statement does not say); filesize None counts as 'not all bytes arrived'",
    "an UPLOAD stored as UPLOADING with bytes missing is loaded INCOMPLETE (a state documented as download-only): "
    "the statement says 'INCOMPLETE otherwise' for both directions, so this is accepted and only counted "
    "(upload_loaded_incomplete); such an upload is never scheduled again, which is not judged here",
    "abort_reason None stored with state ABORTED may come back as None or as 'Requested' (the repair in "
    "Transfer.__setstate__); start/complete times of a transfer stored as transferring may come back reset",
    "place_in_queue, attempt counters and times are not named by the statement; DESIGN lists them as preserved and "
    "they are judged (signature field-changed:<field>)",
    "scheduling eligibility after load: upload QUEUED (one per user, the library's documented rule), download "
    "QUEUED | INCOMPLETE | FAILED without reason; the user's status is unknown in a fresh client (eligible)",
    "bounded progress after a restart is not part of C17 (counted as resumed_complete / not_resumed); loop "
    "exceptions and error logs of crash runs belong to other properties and are only counted (the crash model "
    "cancels tasks, which a real SIGKILL would not run)",
    "kind=crash: a process end is modelled inside one simulated world by cancelling every task that carries the "
    "victim's node context, aborting its transports (peers see RST) and closing its listeners; data the old "
    "process had received is flushed to the local file by the cancellation (a real crash may lose buffered bytes); "
    "the scripted server announces the victim's status to the other client (offline at the end, online after the "
    "new login), as the real server does for tracked users",
    "kind=crash compares against the snapshot taken when the cache was written: what stop() itself does to a "
    "running transfer before writing (observed: a download that is DOWNLOADING when stop() is called is persisted "
    "as FAILED 'Cancelled' and is not resumed after the restart) is recorded in the coverage table "
    "state_changed_by_the_end_before_write, not judged",
]
MIN_OBS = {
    'quick': {'lists_checked': 1800, 'transfers_compared': 5000, 'legacy_records': 300, 'collision_pairs': 150,
              'fresh_checks': 3000, 'crash_runs': 50, 'crash_loads_judged': 80,
              'foreign_records': 1500, 'foreign_remotely_queued_downloads': 120,
              'writes_inside_removal_notification': 300, 'removals_cancelled_in_notification': 150,
              'ends_after_listener_write': 400, 'user_removals_live': 10, 'crash_pinned_writes': 8,
              'startup_probes_with_eligible': 1200, 'startup_eligible_transfers': 2500},
    'thorough': {'lists_checked': 55000, 'transfers_compared': 150000, 'legacy_records': 9000,
                 'collision_pairs': 4500, 'fresh_checks': 90000, 'crash_runs': 2700, 'crash_loads_judged': 4000,
                 'foreign_records': 100000, 'foreign_remotely_queued_downloads': 8000,
                 'writes_inside_removal_notification': 20000, 'removals_cancelled_in_notification': 10000,
                 'ends_after_listener_write': 30000, 'user_removals_live': 1000, 'crash_pinned_writes': 400,
                 'startup_probes_with_eligible': 80000, 'startup_eligible_transfers': 160000},
}
SHARD_TIMEOUT = {'quick': 900, 'thorough': 7200}
WHAT_FAILS = {
    'lost:key-collision-concatenation': 'shelf key sha256(user+path+direction) has no separator: two transfers '
                                        'whose concatenations coincide overwrite each other',
}

BATCH = 25
STATES = ['VIRGIN', 'QUEUED', 'INITIALIZING', 'DOWNLOADING', 'UPLOADING', 'INCOMPLETE', 'COMPLETE', 'FAILED',
          'ABORTED', 'PAUSED']
DRIVE = {
    'VIRGIN': [],
    'QUEUED': ['queue'],
    'PAUSED': ['pause'],
    'INITIALIZING': ['queue', 'initialize'],
    'DOWNLOADING': ['queue', 'initialize', 'start_transferring'],
    'UPLOADING': ['queue', 'initialize', 'start_transferring'],
    'COMPLETE': ['queue', 'initialize', 'start_transferring', 'complete'],
    'INCOMPLETE': ['queue', 'initialize', 'start_transferring', 'incomplete'],
    'FAILED': ['queue', 'fail'],
    'ABORTED': ['queue', 'abort'],
}
ALL_OPS = ['queue', 'pause', 'abort', 'fail', 'complete', 'incomplete', 'initialize', 'start_transferring']
USER_OPS = ['queue', 'pause', 'abort', 'fail']
FIELDS = ('local_path', 'filesize', 'bytes_transfered', 'fail_reason', 'place_in_queue', 'queue_attempts',
          'last_queue_attempt', 'upload_request_attempts', 'last_upload_request_attempt')
TIME_FIELDS = ('start_time', 'complete_time')
USERS = ['peer', 'ab', 'a', 'üñí çødé', '用户名', 'u s e r', 'Z', 'peer2', '𝔘ser😀']
PATHS = ['@@abc\\dir\\file.bin', 'c', 'bc', '@@abc\\Müsik\\söng №1.mp3', '@@x\\日本語\\ファイル.flac',
         '@@abc\\dir\\file2.bin', '@@q\\it\'s a "name".ogg', '@@abc\\dir\\FILE.bin', '@@abc\\dir\\file.bin ',
         '@@e\\😀\\t.mp3']
COLLISION_BASES = ['abc', 'peer1@@abc\\f.bin', 'üñí@@x\\ü.mp3', '用户名@@日本\\ファ.flac', 'dj_x@@s\\a b.ogg']
FAIL_REASONS = [None, None, 'Cancelled', 'File not shared.', 'Queued', 'Grund: gesperrt für ü']
ABORT_REASONS = [None, 'Requested', 'Blocked', 'File not shared']
PHASES = ['queued', 'init-up', 'init-dn', 'transferring', 'transferring', 'incomplete', 'complete-first',
          'complete-both', 'random']
PROGRESS_BOUND = 7200.0


def states_for(direction: str) -> list[str]:
    if direction == 'UPLOAD':
        return [s for s in STATES if s not in ('DOWNLOADING', 'INCOMPLETE')]
    return [s for s in STATES if s != 'UPLOADING']


def cases(tier: str, seed: int) -> list[dict]:
    n_lists = 5000 if tier == 'quick' else 200000
    n_crash = 150 if tier == 'quick' else 9000
    out = []
    for i in range(n_lists // BATCH):
        out.append({'kind': 'lists', 'seed': seed, 'i': i, 'n': BATCH})
    for i in range(n_crash):
        out.append({'kind': 'crash', 'seed': seed, 'i': i})
    return out


def run_case(params: dict) -> dict:
    if params['kind'] == 'lists':
        return _run_lists(params)
    return _run_crash(params)


# ---------------------------------------------------------------------------
# the oracle (shared by both kinds)

def ident(t) -> tuple:
    return (t.username, t.remote_path, t.direction.name)


def snap(t, legacy: bool = False) -> dict:
    d = {'id': ident(t), 'state': t.state.VALUE.name, 'remotely_queued': t.remotely_queued, 'legacy': legacy}
    for f in FIELDS + TIME_FIELDS:
        d[f] = getattr(t, f)
    d['abort_reason'] = None if legacy else t.abort_reason
    return d


def expected_states(e: dict) -> set:
    st = e['state']
    if st == 'INITIALIZING':
        return {'QUEUED'}
    if st in ('DOWNLOADING', 'UPLOADING'):
        fs, bt = e['filesize'], e['bytes_transfered']
        if fs is None or bt < fs:
            return {'INCOMPLETE'}
        if bt == fs:
            return {'COMPLETE'}
        return {'COMPLETE', 'INCOMPLETE'}
    return {st}


class Verdicts:
    """Per (sub)case collector: one report per signature."""

    def __init__(self):
        self.items: dict[str, dict] = {}

    def __call__(self, sig: str, **detail):
        if sig not in self.items:
            self.items[sig] = detail

    def flush(self, res: dict, **context):
        for sig, detail in self.items.items():
            runner.violation(res, sig, **detail, **context)
        self.items = {}


def wrap_notify(manager) -> list:
    """Instance-attribute wrapper on the manager's listener method."""
    calls: list = []
    orig = manager.on_transfer_state_changed

    async def on_transfer_state_changed(transfer, old, new):
        calls.append((id(transfer), old.name, new.name))
        return await orig(transfer, old, new)

    manager.on_transfer_state_changed = on_transfer_state_changed
    return calls


def judge_set(V, expected: list[dict], got_ids: list[tuple], ever_written: set, where: str):
    """R-set on a list of identities (raw shelf content or manager list)."""
    exp_ids = [e['id'] for e in expected]
    counts = collections.Counter(got_ids)
    for e in expected:
        if counts[e['id']] == 0:
            u, p, d = e['id']
            twins = [x for x in exp_ids if x != e['id'] and x[2] == d and x[0] + x[1] == u + p]
            if twins:
                V('lost:key-collision-concatenation', lost=list(e['id']), survivor=list(twins[0]),
                  key_input=u + p + ('0' if d == 'UPLOAD' else '1'), where=where,
                  written=[list(x) for x in exp_ids])
            else:
                V('lost:not-in-cache', lost=list(e['id']), where=where, written=[list(x) for x in exp_ids],
                  loaded=[list(x) for x in got_ids])
    for i, n in counts.items():
        if i in exp_ids:
            if n > 1:
                V('duplicated', transfer=list(i), times=n, where=where)
        elif i in ever_written:
            V('resurrected-after-remove', transfer=list(i), where=where, written=[list(x) for x in exp_ids])
        else:
            V('duplicated:unknown-identity', transfer=list(i), where=where)


def judge_load(V, obs: dict, cover: set, expected: list[dict], manager, ever_written: set, tag: str):
    """R-set, R-fields, R-state, R-flags, listener wiring and scheduling on a
    manager right after load_data(). Synchronous: nothing can run in between."""
    loaded = list(manager.transfers)
    judge_set(V, expected, [ident(t) for t in loaded], ever_written, 'manager.transfers')
    by_id: dict = {}
    for t in loaded:
        by_id.setdefault(ident(t), t)
    for e in expected:
        cover.add(f"{tag}:{e['id'][2][0]}:{e['state']}")
        t = by_id.get(e['id'])
        if t is None:
            continue
        obs['transfers_compared'] += 1
        if e['legacy']:
            obs['legacy_records'] += 1
        if e.get('foreign'):
            # written in the stored format of a previous version, not by the class under test
            obs['foreign_records'] += 1
            if e['remotely_queued'] and e['id'][2] == 'DOWNLOAD' and \
                    expected_states(e) & {'QUEUED', 'INCOMPLETE'}:
                obs['foreign_remotely_queued_downloads'] += 1
        w = {'transfer': list(e['id']), 'stored_state': e['state']}
        for f in FIELDS:
            if getattr(t, f, '<missing>') != e[f]:
                V(f'field-changed:{f}', stored=e[f], loaded=getattr(t, f, '<missing>'), **w)
        ar = getattr(t, 'abort_reason', '<missing>')
        ok_ar = {e['abort_reason']}
        if e['abort_reason'] is None and e['state'] == 'ABORTED':
            ok_ar.add('Requested')
        if ar not in ok_ar:
            V('field-changed:abort_reason', stored=e['abort_reason'], loaded=ar, legacy=e['legacy'], **w)
        for f in TIME_FIELDS:
            ok_t = [e[f]]
            if e['state'] in ('DOWNLOADING', 'UPLOADING'):
                ok_t.append(None)
            if getattr(t, f, '<missing>') not in ok_t:
                V(f'field-changed:{f}', stored=e[f], loaded=getattr(t, f, '<missing>'), **w)
        st = t.state.VALUE.name
        if st not in expected_states(e):
            V(f"state-repair:{e['state']}->{st}", expected=sorted(expected_states(e)), filesize=e['filesize'],
              bytes_transfered=e['bytes_transfered'], **w)
        elif e['state'] == 'UPLOADING' and st == 'INCOMPLETE':
            obs['upload_loaded_incomplete'] += 1
        if t.remotely_queued:
            V('remotely-queued-not-cleared', stored_flag=e['remotely_queued'], loaded_state=st, **w)
        n = sum(1 for lst in t.state_listeners if lst is manager)
        if n == 0:
            V('not-fresh:listener-missing', listeners=len(t.state_listeners), **w)
        elif n > 1:
            V('not-fresh:listener-duplicated', times=n, **w)
        lock = getattr(t, '_state_lock', None)
        if not isinstance(lock, asyncio.Lock) or lock.locked() or getattr(t.state, 'transfer', None) is not t:
            V('not-fresh:lock-or-state-object-unusable', lock=repr(lock), **w)
        if t._transfer_task is not None or t._remotely_queue_task is not None:
            V('not-fresh:task-attached-after-load', **w)
    # scheduling: what the next management cycle would pick up
    downloads, uploads = manager._get_queued_transfers()
    sched = {id(t) for t in downloads + uploads}
    busy_users = {t.username for t in loaded if t.is_upload() and t.is_processing()}
    queued_upload_users = set()
    for t in loaded:
        st = t.state.VALUE.name
        obs['schedule_checks'] += 1
        if t.is_download():
            eligible = st in ('QUEUED', 'INCOMPLETE') or (st == 'FAILED' and t.fail_reason is None)
            if eligible and id(t) not in sched:
                V(f'not-fresh:not-scheduled:{st}', transfer=list(ident(t)), remotely_queued=t.remotely_queued)
            if not eligible and id(t) in sched:
                V(f'not-fresh:scheduled-unexpectedly:{st}', transfer=list(ident(t)))
        else:
            if st == 'QUEUED' and t.username not in busy_users:
                queued_upload_users.add(t.username)
            if id(t) in sched and st != 'QUEUED':
                V(f'not-fresh:scheduled-unexpectedly:{st}', transfer=list(ident(t)))
    sched_upload_users = {t.username for t in uploads}
    for u in sorted(queued_upload_users - sched_upload_users):
        V('not-fresh:not-scheduled:QUEUED', user=u, direction='upload')


def eligible_for_scheduling(transfers: list) -> tuple[list, list]:
    """(downloads, uploads) a management cycle has to pick up (status of the users unknown).
    Of the uploads only one per user is started at a time."""
    busy_users = {t.username for t in transfers if t.is_upload() and t.is_processing()}
    dls, uls = [], []
    for t in transfers:
        st = t.state.VALUE.name
        if t.is_download():
            if st in ('QUEUED', 'INCOMPLETE') or (st == 'FAILED' and t.fail_reason is None):
                dls.append(t)
        elif st == 'QUEUED' and t.username not in busy_users:
            uls.append(t)
    return dls, uls


class CycleProbe:
    """Instance-attribute wrappers on a manager: management cycles run by the management job
    and the transfers it started to work on (observation only, the originals are called)."""

    def __init__(self, manager):
        self.cycles = 0
        self.attempted: set = set()
        orig_mt, orig_qr, orig_iu = manager.manage_transfers, manager._queue_remotely, manager._initialize_upload

        def manage_transfers():
            self.cycles += 1
            return orig_mt()

        async def _queue_remotely(transfer):
            self.attempted.add(id(transfer))
            return await orig_qr(transfer)

        async def _initialize_upload(transfer):
            self.attempted.add(id(transfer))
            return await orig_iu(transfer)

        manager.manage_transfers = manage_transfers
        manager._queue_remotely = _queue_remotely
        manager._initialize_upload = _initialize_upload

    def satisfied(self, dls: list, uls: list) -> bool:
        return (self.cycles > 0 and all(id(t) in self.attempted for t in dls) and
                (not uls or any(id(t) in self.attempted for t in uls)))

    async def wait(self, dls: list, uls: list, bound: float):
        """Up to ``bound`` virtual seconds; returns as soon as there is nothing left to wait for."""
        loop = asyncio.get_running_loop()
        end = loop.time() + bound
        while loop.time() < end and not ((dls or uls) and self.satisfied(dls, uls)):
            await asyncio.sleep(0.05)
            if not dls and not uls and self.cycles > 0:
                break

    def judge(self, V, obs: dict, dls: list, uls: list, bound: float, where: str):
        """``dls`` / ``uls``: what was eligible right after load_data()."""
        obs['startup_probes'] += 1
        if not dls and not uls:
            return
        obs['startup_probes_with_eligible'] += 1
        obs['startup_eligible_transfers'] += len(dls) + len(uls)
        w = {'eligible': [(list(ident(t)), t.state.VALUE.name) for t in dls + uls][:6], 'bound_s': bound,
             'where': where}
        if self.cycles == 0:
            V('not-fresh:no-management-cycle-after-start', **w,
              via='load_data() then start(): the management job never ran a cycle for the loaded transfers')
            return
        for t in dls:
            if id(t) not in self.attempted:
                V('not-fresh:not-scheduled-after-start:download', transfer=list(ident(t)), cycles=self.cycles, **w)
        if uls and not any(id(t) in self.attempted for t in uls):
            V('not-fresh:not-scheduled-after-start:upload', cycles=self.cycles, **w)


STARTUP_BOUND = 1.0     # virtual seconds: four of the longest management intervals (0.25 s)


def new_obs() -> dict:
    return collections.defaultdict(int)


# ---------------------------------------------------------------------------
# kind = lists

def _make_client(base: str, cache_dir: str):
    from aioslsk.client import SoulSeekClient
    from aioslsk.settings import CredentialsSettings, Settings, SharesSettings
    from aioslsk.transfer.cache import TransferShelveCache
    settings = Settings(credentials=CredentialsSettings(username='me', password='pw'),
                        shares=SharesSettings(scan_on_start=False, download=os.path.join(base, 'dl')))
    return SoulSeekClient(settings, transfer_cache=TransferShelveCache(cache_dir))


async def _do_op(t, op: str, rng: random.Random):
    if op == 'fail':
        return await t.state.fail(reason=rng.choice(FAIL_REASONS))
    if op == 'abort':
        return await t.state.abort(reason=rng.choice(ABORT_REASONS[1:]))
    if op == 'queue':
        return await t.state.queue(remotely=rng.random() < 0.3)
    return await getattr(t.state, op)()


async def _drive(t, state: str):
    for op in DRIVE[state]:
        if op == 'fail':
            ok = await t.state.fail(reason='Cancelled')
        elif op == 'abort':
            ok = await t.state.abort(reason='Requested')
        else:
            ok = await getattr(t.state, op)()
        if not ok:
            raise RuntimeError(f'harness: could not drive to {state} via {op}')
    if t.state.VALUE.name != state:
        raise RuntimeError(f'harness: wanted {state}, got {t.state.VALUE.name}')


def _set_fields(t, rng: random.Random, base: str):
    st = t.state.VALUE.name
    t.local_path = rng.choice([None, os.path.join(base, 'dl', f'f{rng.randint(0, 99)}.bin'),
                               os.path.join(base, 'dl', 'Müsik', 'söng №1 日本.mp3')])
    fs = rng.choice([None, 0, 1, 1000, 1000, 123456789, 2 ** 33 + 5])
    t.filesize = fs
    if fs is None:
        t.bytes_transfered = rng.choice([0, 0, 10])
    elif fs == 0:
        t.bytes_transfered = rng.choice([0, 0, 0, 5])
    else:
        k = rng.choice(['zero', 'part', 'all', 'all', 'over']) if st in ('DOWNLOADING', 'UPLOADING', 'COMPLETE') \
            else rng.choice(['zero', 'part', 'part', 'all', 'over'])
        t.bytes_transfered = {'zero': 0, 'part': rng.randint(0, fs - 1), 'all': fs, 'over': fs + rng.randint(1, 9)}[k]
    t.fail_reason = rng.choice(FAIL_REASONS) if (st == 'FAILED' or rng.random() < 0.2) else None
    if st == 'ABORTED':
        t.abort_reason = rng.choice(ABORT_REASONS)
    else:
        t.abort_reason = rng.choice(ABORT_REASONS) if rng.random() < 0.15 else None
    t.place_in_queue = rng.choice([None, None, 0, 1, 57])
    t.remotely_queued = rng.random() < 0.5
    t.queue_attempts = rng.choice([0, 0, 1, 7])
    t.last_queue_attempt = rng.choice([0.0, 1000.25, 98765.5])
    t.upload_request_attempts = rng.choice([0, 0, 2])
    t.last_upload_request_attempt = rng.choice([0.0, 1003.5])
    t.start_time = rng.choice([None, 1_700_000_100.5])
    t.complete_time = rng.choice([None, 1_700_000_200.75]) if t.start_time is not None else None


def _gen_identities(rng: random.Random, n: int) -> tuple[list[tuple], int]:
    """n distinct (user, path, direction); some share user+path concatenation."""
    ids: list[tuple] = []
    pairs = 0

    def add(i):
        if i not in ids and len(ids) < n:
            ids.append(i)
            return True
        return False

    if n >= 2 and rng.random() < 0.22:
        s = rng.choice(COLLISION_BASES)
        i, j = sorted(rng.sample(range(1, len(s)), 2))
        d = rng.choice(['DOWNLOAD', 'UPLOAD'])
        if add((s[:i], s[i:], d)) and add((s[:j], s[j:], d)):
            pairs += 1
        if rng.random() < 0.3:
            # same concatenation, other direction: must NOT collide
            add((s[:i], s[i:], 'UPLOAD' if d == 'DOWNLOAD' else 'DOWNLOAD'))
    if n >= 2 and rng.random() < 0.2:
        u, p = rng.choice(USERS), rng.choice(PATHS)
        add((u, p, 'DOWNLOAD'))
        add((u, p, 'UPLOAD'))
    guard = 0
    while len(ids) < n and guard < 200:
        guard += 1
        add((rng.choice(USERS), rng.choice(PATHS), rng.choice(['DOWNLOAD', 'UPLOAD'])))
    rng.shuffle(ids)
    return ids, pairs


async def _new_transfer(i: tuple, rng: random.Random, base: str, state=None):
    from aioslsk.transfer.model import Transfer, TransferDirection
    t = Transfer(i[0], i[1], TransferDirection[i[2]])
    st = state or rng.choice(states_for(i[2]))
    await _drive(t, st)
    _set_fields(t, rng, base)
    return t


def _write(manager, legacy: set, how: str):
    """Write through the class under test. Legacy records are pickled in the shape of the
    repository's fixture: no abort_reason, with _offset / bytes_written / bytes_read."""
    stripped = []
    for t in manager.transfers:
        if id(t) in legacy:
            stripped.append((t, t.__dict__.pop('abort_reason', None), '_offset' in t.__dict__, t.__dict__.get('_offset')))
            t.__dict__['_offset'] = 5
            t.__dict__['bytes_written'] = 0
            t.__dict__['bytes_read'] = 0
    try:
        if how == 'cache.write':
            manager.cache.write(manager.transfers)
        else:
            manager.write_cache()
    finally:
        for t, _, had_offset, offset in stripped:
            t.__dict__['abort_reason'] = None
            t.__dict__.pop('bytes_written', None)
            t.__dict__.pop('bytes_read', None)
            if had_offset:
                t.__dict__['_offset'] = offset
            else:
                t.__dict__.pop('_offset', None)


# The stored format of the pinned commit, frozen here as DATA: the record is the pickled
# dict of these attributes with the state stored by value, under the key
# sha256(username + remote_path + direction) of that commit. Nothing of the class under
# test takes part in writing such a record (its __getstate__ is bypassed).
PINNED_FIELDS = ('direction', 'username', 'remote_path', 'local_path', 'remotely_queued', 'place_in_queue',
                 'fail_reason', 'abort_reason', 'filesize', 'bytes_transfered', 'queue_attempts',
                 'last_queue_attempt', 'upload_request_attempts', 'last_upload_request_attempt', 'start_time',
                 'complete_time')


def _pinned_state(t, legacy: bool) -> dict:
    d = {'state': t.state.VALUE}
    for f in PINNED_FIELDS:
        d[f] = getattr(t, f)
    if '_offset' in t.__dict__:
        d['_offset'] = t.__dict__['_offset']
    if legacy:
        # the still older layout of tests/unit/resources/data/transfers.*
        d.pop('abort_reason')
        d['_offset'] = None
        d['bytes_written'] = 0
        d['bytes_read'] = 0
    return d


def _write_pinned(cache_dir: str, transfers: list, legacy: set, protocol: int) -> list[dict]:
    """The whole list as the previous version of the library left it on disk.
    Returns the snapshot of what the database holds."""
    import copyreg
    import dbm
    import hashlib
    import io
    import pickle
    from aioslsk.transfer.model import Transfer
    records: dict = {}
    for t in transfers:
        state = _pinned_state(t, id(t) in legacy)
        buf = io.BytesIO()
        pickler = pickle.Pickler(buf, protocol=protocol)
        pickler.dispatch_table = {Transfer: lambda obj, state=state: (copyreg.__newobj__, (Transfer,), state)}
        pickler.dump(t)
        key = hashlib.sha256((t.username + t.remote_path + str(t.direction.value)).encode('utf-8')).hexdigest()
        records[key] = (buf.getvalue(), t)       # that commit's writer: a later transfer with the same key wins
    db = dbm.open(os.path.join(cache_dir, 'transfers'), 'c')
    try:
        for k in list(db.keys()):
            del db[k]
        for k, (raw, _) in records.items():
            db[k.encode('utf-8')] = raw
    finally:
        db.close()
    out = []
    for _, t in records.values():
        e = snap(t, legacy=id(t) in legacy)
        e['foreign'] = True
        out.append(e)
    return out


async def _run_sub(res: dict, rng: random.Random, base: str, plan: dict) -> dict:
    """One list + history. Returns a description (for csig / sample).

    The harness plays the application: it follows the list of transfers through what the
    manager tells it (return of add() / remove(), TransferAddedEvent / TransferRemovedEvent)
    in ``model``; the snapshot taken at a write is the snapshot of that list, wherever the
    write happens (history step, or a persist-on-change listener inside a notification)."""
    from aioslsk.events import TransferAddedEvent, TransferRemovedEvent
    from aioslsk.transfer.cache import TransferShelveCache
    V = Verdicts()
    obs = new_obs()
    cover: set = set()
    cache_dir = os.path.join(base, 'cache')
    os.makedirs(cache_dir, exist_ok=True)
    os.makedirs(os.path.join(base, 'dl'), exist_ok=True)
    special = plan.get('special')
    rng2: random.Random = plan.get('rng2') or random.Random(0)     # stream of the features added later
    persist = plan.get('persist')                  # None | 'sync' | 'async': persist-on-change listener
    p_cancel = float(plan.get('cancel_remove', 0.0))
    p_pinned = float(plan.get('pinned', 0.0))
    script = plan.get('script')
    desc: dict = {'list': [], 'history': [], 'special': special, 'persist': persist,
                  'cancel_remove': p_cancel > 0, 'pinned': p_pinned > 0}

    client = _make_client(base, cache_dir)
    mgr = client.transfers
    calls = wrap_notify(mgr)
    legacy: set = set()
    loaded_ids: set = set()        # id() of transfers that came out of a cache
    ever_written: set = set()      # identities in any write before the last one
    removed_ids: set = set()       # identities the application was told are removed
    removed_pool: list = []
    model: list = []
    keep: list = []                # strong references (the event bus keeps weak ones)
    expected = None
    ctx: dict = {'notified': None}

    def write_now(how: str, protocol=None) -> bool:
        nonlocal expected
        if expected is not None:
            ever_written.update(e['id'] for e in expected)
        try:
            if how == 'pinned':
                expected = _write_pinned(cache_dir, list(model), legacy, protocol or 4)
                obs['pinned_writes'] += 1
            else:
                expected = [snap(t, legacy=id(t) in legacy) for t in model]
                _write(mgr, legacy, how)
        except Exception as exc:  # noqa
            V(f'write-exception:{type(exc).__name__}', exc=repr(exc)[:300], how=how,
              transfers=[(list(ident(t)), t.state.VALUE.name) for t in mgr.transfers])
            return False
        obs['writes'] += 1
        return True

    async def write_async(how: str) -> bool:
        nonlocal expected
        if how == 'store_data' and not legacy:
            if expected is not None:
                ever_written.update(e['id'] for e in expected)
            expected = [snap(t) for t in model]
            try:
                await mgr.store_data()
            except Exception as exc:  # noqa
                V(f'write-exception:{type(exc).__name__}', exc=repr(exc)[:300], how=how,
                  transfers=[(list(ident(t)), t.state.VALUE.name) for t in mgr.transfers])
                return False
            obs['writes'] += 1
            return True
        return write_now(how, protocol=rng2.choice([3, 4]) if how == 'pinned' else None)

    def attach_app(c):
        keep.clear()

        def on_added(event):
            if not any(x is event.transfer for x in model):
                model.append(event.transfer)
            removed_ids.discard(ident(event.transfer))

        def on_removed(event):
            # "Emitted when a transfer has been detached from the client"
            model[:] = [x for x in model if x is not event.transfer]
            removed_ids.add(ident(event.transfer))
            if ctx['notified'] is not None:
                ctx['notified'].set()

        c.events.register(TransferAddedEvent, on_added, priority=0)
        c.events.register(TransferRemovedEvent, on_removed, priority=0)
        keep.extend([on_added, on_removed])
        if not persist:
            return

        def app_write(event):
            obs['listener_writes'] += 1
            if isinstance(event, TransferRemovedEvent):
                obs['writes_inside_removal_notification'] += 1
            write_now('write_cache')

        if persist == 'sync':
            def on_change(event):
                app_write(event)
        else:
            k1, k2 = rng2.choice([0, 1, 3]), rng2.choice([0, 1, 2])

            async def on_change(event):
                for _ in range(k1):
                    await asyncio.sleep(0)
                app_write(event)
                for _ in range(k2):
                    await asyncio.sleep(0)
        c.events.register(TransferAddedEvent, on_change, priority=100)
        c.events.register(TransferRemovedEvent, on_change, priority=100)
        keep.append(on_change)

    n_rounds = 1
    first_restart = False
    if special == 'fixture':
        import aioslsk
        src = os.path.join(os.path.dirname(aioslsk.__file__), '..', '..', 'tests', 'unit', 'resources', 'data')
        if not os.path.exists(os.path.join(src, 'transfers.dat')):
            return desc
        for fn in os.listdir(src):
            if fn.startswith('transfers.'):
                shutil.copy(os.path.join(src, fn), os.path.join(cache_dir, fn))
        expected = []
        for i in (('user0', '@abcdef\\file.mp3', 'DOWNLOAD'), ('user1', '@abcdef\\file.flac', 'UPLOAD')):
            e = {'id': i, 'state': 'VIRGIN', 'remotely_queued': False, 'legacy': True, 'abort_reason': None,
                 'local_path': None, 'filesize': None, 'bytes_transfered': 0, 'fail_reason': None,
                 'place_in_queue': None, 'queue_attempts': 0, 'last_queue_attempt': 0.0,
                 'upload_request_attempts': 0, 'last_upload_request_attempt': 0.0, 'start_time': None,
                 'complete_time': None, 'foreign': True}
            expected.append(e)
        first_restart = True
        desc['list'] = [('VIRGIN', 'DOWNLOAD'), ('VIRGIN', 'UPLOAD')]
    else:
        attach_app(client)
        if plan.get('ids'):
            ids = [tuple(i) for i in plan['ids']]
            pairs = 1 if special == 'minimal-collision' else 0
        else:
            n = rng.choice([0, 1, 1, 2, 2, 3, 3, 4, 5, 6, 7, 8, 8])
            ids, pairs = _gen_identities(rng, n)
        obs['collision_pairs'] += pairs
        for k, i in enumerate(ids):
            st = plan['states'][k] if plan.get('states') else None
            t = await _new_transfer(i, rng, base, state=st)
            if plan.get('rq'):
                t.remotely_queued = True
            if not special and rng.random() < 0.2:
                legacy.add(id(t))
                t.abort_reason = None
            r_ = await mgr.add(t)
            if not any(x is r_ for x in model):
                model.append(r_)
            desc['list'].append((t.state.VALUE.name, i[2]))
        n_rounds = len(script) if script else rng.choice([1, 1, 2, 3])

    async def mutate(k: int):
        for _ in range(k):
            if not model:
                return
            t = rng.choice(model)
            if rng.random() < 0.6:
                st, d = t.state.VALUE.name, t.direction.name
                ops = [op for op in ALL_OPS if op_allowed(st, op, d)]
                if not ops:
                    # an upload loaded as INCOMPLETE: the documented graph has no edge for it
                    obs['no_legal_op'] += 1
                    continue
                op = rng.choice(ops)
                n0 = len(calls)
                ok = await _do_op(t, op, rng)
                obs['ops_applied'] += 1
                if ok and id(t) in loaded_ids:
                    obs['fresh_checks'] += 1
                    if not any(c[0] == id(t) for c in calls[n0:]):
                        V('not-fresh:listener-missing', transfer=list(ident(t)), op=op, state_before=st,
                          via='operation on a loaded transfer was not reported to the manager')
            else:
                f = rng.choice(['bytes', 'size', 'place', 'rq', 'path', 'attempts'])
                if f == 'bytes':
                    t.bytes_transfered = rng.choice([0, t.filesize or 0, (t.filesize or 2) // 2, 777])
                elif f == 'size':
                    t.filesize = rng.choice([None, 0, 1000, 5000])
                elif f == 'place':
                    t.place_in_queue = rng.choice([None, 0, 3])
                elif f == 'rq':
                    t.remotely_queued = not t.remotely_queued
                elif f == 'path':
                    t.local_path = rng.choice([None, os.path.join(base, 'dl', 'moved Ü.bin')])
                else:
                    t.increase_queue_attempts()

    async def remove_cancelled(t):
        """The task doing the removal is cancelled while a listener of the removal is awaited."""
        ctx['notified'] = asyncio.Event()
        long = rng2.random() < 0.5

        async def slow(event):
            if long:
                await asyncio.sleep(30.0)
            else:
                for _ in range(3):
                    await asyncio.sleep(0)

        client.events.register(TransferRemovedEvent, slow, priority=rng2.choice([50, 150]))
        task = asyncio.ensure_future(mgr.remove(t))
        try:
            await asyncio.wait_for(ctx['notified'].wait(), 5.0)
        except asyncio.TimeoutError:
            raise RuntimeError('harness: the removal was never notified')
        finally:
            ctx['notified'] = None
        task.cancel()
        try:
            await task
        except asyncio.CancelledError:
            pass
        client.events.unregister(TransferRemovedEvent, slow)
        if task.cancelled():
            obs['removals_cancelled_in_notification'] += 1

    async def remove(k: int):
        for _ in range(k):
            if not model:
                return
            t = rng.choice(model)
            if p_cancel > 0 and rng2.random() < p_cancel:
                await remove_cancelled(t)
            else:
                await mgr.remove(t)
            obs['removals'] += 1
            # the application was told / remove() returned
            model[:] = [x for x in model if x is not t]
            removed_ids.add(ident(t))
            legacy.discard(id(t))
            removed_pool.append(ident(t))

    async def add(k: int):
        for _ in range(k):
            if len(model) >= 8:
                return
            if removed_pool and rng.random() < 0.5:
                i = rng.choice(removed_pool)
            else:
                i = (rng.choice(USERS), rng.choice(PATHS), rng.choice(['DOWNLOAD', 'UPLOAD']))
            if any(ident(x) == i for x in model):
                continue
            t = await _new_transfer(i, rng, base)
            r_ = await mgr.add(t)
            if not any(x is r_ for x in model):
                model.append(r_)
            removed_ids.discard(i)

    async def startup_probe() -> bool:
        """A further client on a COPY of the cache goes through the client's own start-up order
        (load_data() of all services, then start() of all services; no connect, no login, nothing
        else is called): within a few management intervals the management job must have worked
        on the loaded transfers."""
        ctx['probes'] = ctx.get('probes', 0) + 1
        pdir = os.path.join(base, f"probe{ctx['probes']}")
        shutil.copytree(cache_dir, os.path.join(pdir, 'cache'))
        pc = _make_client(pdir, os.path.join(pdir, 'cache'))
        pm = pc.transfers
        probe = CycleProbe(pm)
        elig: dict = {}
        orig_load = pm.load_data

        async def load_data():
            await orig_load()
            elig['dls'], elig['uls'] = eligible_for_scheduling(list(pm.transfers))
        pm.load_data = load_data
        try:
            await pc.start(connect=False)
        except Exception as exc:  # noqa
            V(f'load-exception:{type(exc).__name__}', where='client.start(connect=False)', exc=repr(exc)[:300])
            return False
        await probe.wait(elig.get('dls', []), elig.get('uls', []), STARTUP_BOUND)
        probe.judge(V, obs, elig.get('dls', []), elig.get('uls', []), STARTUP_BOUND, 'lists')
        await pc.stop()
        shutil.rmtree(pdir, ignore_errors=True)
        return True

    async def restart(final: bool):
        nonlocal client, mgr, calls, legacy, loaded_ids
        gone = ever_written | removed_ids
        # the shelf itself
        try:
            raw = TransferShelveCache(cache_dir).read()
        except Exception as exc:  # noqa
            V(f'load-exception:{type(exc).__name__}', where='cache.read', exc=repr(exc)[:300])
            raw = None
        if raw is not None:
            obs['cache_reads'] += 1
            judge_set(V, expected, [ident(t) for t in raw], gone, 'cache.read')
        new_client = _make_client(base, cache_dir)
        new_mgr = new_client.transfers
        new_calls = wrap_notify(new_mgr)
        try:
            await new_mgr.load_data()
        except Exception as exc:  # noqa
            V(f'load-exception:{type(exc).__name__}', where='load_data', exc=repr(exc)[:300],
              stored=[(list(e['id']), e['state']) for e in expected])
            obs['lists_checked'] += 1
            return False
        judge_load(V, obs, cover, expected, new_mgr, gone, 'lists')
        obs['lists_checked'] += 1
        if not await startup_probe():
            return False
        client, mgr, calls = new_client, new_mgr, new_calls
        legacy = set()
        loaded_ids = {id(t) for t in mgr.transfers}
        model[:] = list(mgr.transfers)
        removed_ids.clear()
        attach_app(client)
        if final:
            # (i) a legal operation on every loaded transfer is reported to the manager
            for t in list(mgr.transfers):
                st, d = t.state.VALUE.name, t.direction.name
                ops = [op for op in USER_OPS if op_allowed(st, op, d)]
                if not ops:
                    continue
                op = rng.choice(ops)
                n0 = len(calls)
                try:
                    async with t._state_lock:
                        pass
                    ok = await _do_op(t, op, rng)
                except Exception as exc:  # noqa
                    V(f'not-fresh:operation-raised:{type(exc).__name__}', transfer=list(ident(t)), op=op, state=st,
                      exc=repr(exc)[:300])
                    continue
                obs['fresh_checks'] += 1
                seen = [c for c in calls[n0:] if c[0] == id(t)]
                if not ok:
                    V('not-fresh:op-refused', transfer=list(ident(t)), op=op, state=st)
                elif not seen:
                    V('not-fresh:listener-missing', transfer=list(ident(t)), op=op, state_before=st,
                      via='operation on a loaded transfer was not reported to the manager')
                elif seen[-1][2] != t.state.VALUE.name or seen[0][1] != st:
                    V('not-fresh:listener-reported-wrong-edge', transfer=list(ident(t)), op=op, state_before=st,
                      reported=[list(c[1:]) for c in seen], state_after=t.state.VALUE.name)
        return True

    alive = True
    if first_restart:
        alive = await restart(final=False)
        desc['history'].append('fixture-load')
    for r in range(n_rounds):
        if not alive:
            break
        last = r == n_rounds - 1
        step = script[r] if script else None
        if step is not None:
            km, kr, ka = step.get('km', 0), step.get('kr', 0), step.get('ka', 0)
        elif r == 0 and not first_restart:
            km, kr, ka = rng.choice([0, 0, 1]), 0, 0
        else:
            km, kr, ka = rng.choice([0, 1, 2, 3]), rng.choice([0, 0, 1, 2]), rng.choice([0, 0, 1, 2])
        await mutate(km)
        await remove(kr)
        await add(ka)
        how = rng.choice(['write_cache', 'write_cache', 'store_data', 'cache.write'])
        do_restart = last or rng.random() < 0.3
        if step is not None:
            how = step.get('how', 'write_cache')
            skip_write = bool(step.get('skip_write'))
        else:
            # persist-on-change application: the process may end before any other write
            skip_write = bool(persist) and expected is not None and obs['listener_writes'] > 0 and rng2.random() < 0.5
            if do_restart and not skip_write and p_pinned > 0 and rng2.random() < p_pinned:
                how = 'pinned'         # the cache was left behind by the previous version of the library
        if skip_write:
            obs['ends_after_listener_write'] += 1
            shape = f"m{min(km, 1)}r{min(kr, 1)}a{min(ka, 1)}b"
        else:
            if not await write_async(how):
                break
            shape = f"m{min(km, 1)}r{min(kr, 1)}a{min(ka, 1)}" + ('P' if how == 'pinned' else 'w')
        if do_restart:
            unsaved = not special and rng.random() < 0.25
            if unsaved:
                # the process goes on after its last periodic write
                await mutate(rng.choice([1, 2]))
                await remove(rng.choice([0, 1]))
                await add(rng.choice([0, 1]))
                shape += 'u'
            alive = await restart(final=last)
            shape += 'R'
        desc['history'].append(shape)

    for k, v in obs.items():
        runner.add_obs(res, k, v)
    for c in sorted(cover):
        runner.add_cover(res, 'persisted_states', c)
    desc['violations'] = sorted(V.items)
    V.flush(res, list=desc['list'], history=desc['history'],
            application={'persist_on_change': persist, 'cancels_removals': p_cancel > 0})
    return desc


def _run_on_simloop(coro_fn, seed='x'):
    install_time_shims()
    loop = SimLoop()
    loop.sim_executor.rng = random.Random(f'{seed}:exec')
    loop.sim_executor.max_delay = 0.0
    try:
        return loop.run_main(coro_fn(loop), wall_timeout=300), list(loop.exceptions)
    finally:
        loop.shutdown_sim()


def _run_lists(params: dict) -> dict:
    res = runner.new_result(params['case'])
    seed, i, n = params['seed'], params['i'], params['n']
    root = tempfile.mkdtemp(prefix='vf-c17-')
    samples: list = []
    trouble: list = []

    async def main(loop):
        for sub in range(n):
            rng = random.Random(f'{seed}:C17:L:{i}:{sub}')
            rng2 = random.Random(f'{seed}:C17:L2:{i}:{sub}')
            plan: dict = {'rng2': rng2}
            dl = ('peer', '@@abc\\dir\\file.bin', 'DOWNLOAD'), ('peer', '@@abc\\dir\\file2.bin', 'DOWNLOAD')
            if i == 0 and sub == 0:
                plan.update(special='minimal-collision', ids=[('ab', 'c', 'DOWNLOAD'), ('a', 'bc', 'DOWNLOAD')],
                            states=['QUEUED', 'QUEUED'], script=[{}])
            elif i == 0 and sub == 1:
                plan['special'] = 'fixture'
            elif i == 0 and sub == 2:
                # a cache left behind by the previous version: downloads the peer had accepted in its queue
                plan.update(special='pinned-remotely-queued', ids=dl, states=['QUEUED', 'INCOMPLETE'], rq=True,
                            script=[{'how': 'pinned'}])
            elif i == 0 and sub == 3:
                # persist-on-change application removes a transfer, the process ends without another write
                plan.update(special='persist-remove-end', ids=dl, states=['QUEUED', 'QUEUED'], persist='sync',
                            script=[{}, {'kr': 1, 'skip_write': True}])
            elif i == 0 and sub == 4:
                # the removal is cancelled while its notification is awaited, stop() writes the cache
                plan.update(special='cancelled-removal', ids=[(u, p_, 'UPLOAD') for u, p_, _ in dl],
                            states=['QUEUED', 'QUEUED'], cancel_remove=1.0, script=[{}, {'kr': 1, 'how': 'store_data'}])
            else:
                plan['persist'] = rng2.choice([None, None, None, 'sync', 'async'])
                plan['cancel_remove'] = rng2.choice([0.0, 0.0, 0.5])
                plan['pinned'] = rng2.choice([0.0, 0.3, 0.6])
            base = os.path.join(root, f's{sub}')
            os.makedirs(base)
            try:
                desc = await _run_sub(res, rng, base, plan)
            except Exception as exc:  # noqa  harness trouble in this sub-case
                import traceback
                trouble.append(f'sub {sub}: ' + traceback.format_exc()[-700:])
                continue
            finally:
                shutil.rmtree(base, ignore_errors=True)
            if desc['history']:
                res['csigs'].append(f"lists|{sorted(desc['list'])}|{desc['history']}|{desc.get('persist')}|"
                                    f"{desc.get('cancel_remove')}")
            if len(samples) < 2 and desc['list']:
                samples.append(desc)
        return True

    import logging
    lg = logging.getLogger('aioslsk')
    old_level, old_prop = lg.level, lg.propagate
    lg.setLevel(logging.CRITICAL)      # refused operations of the history are logged as warnings
    try:
        _, exceptions = _run_on_simloop(main, seed=f'{seed}:{i}')
    except BaseException as exc:  # noqa
        res['inconclusive'] = f'{type(exc).__name__}: {exc}'
        exceptions = []
    finally:
        lg.setLevel(old_level)
        lg.propagate = old_prop
        shutil.rmtree(root, ignore_errors=True)
    if trouble and not res['inconclusive']:
        res['inconclusive'] = 'harness exception in sub-case: ' + trouble[0]
    runner.add_obs(res, 'loop_exceptions_lists', len(exceptions))
    res['evaluations'] = n
    res['sample'] = {'kind': 'lists', 'cases': samples}
    return res


# ---------------------------------------------------------------------------
# kind = crash

def _node_of(task) -> str:
    try:
        return task.get_context().get(NODE)
    except Exception:  # noqa
        return ''


def _first_diff(a: bytes, b: bytes):
    for k in range(min(len(a), len(b))):
        if a[k] != b[k]:
            return k
    return min(len(a), len(b)) if len(a) != len(b) else None


def _run_crash(params: dict) -> dict:
    res = runner.new_result(params['case'])
    seed, i = params['seed'], params['i']
    rng = random.Random(f'{seed}:C17:crash:{i}')
    phase = PHASES[i % len(PHASES)]
    size = rng.randint(20, 200) * 1024 + rng.choice([0, 1, 77])
    if phase in ('transferring', 'incomplete', 'complete-first', 'random'):
        limits = rng.choice([(16, 0), (0, 16), (32, 32), (8, 0), (64, 0), (0, 64)])
    else:
        limits = rng.choice([(0, 0), (0, 0), (16, 0), (0, 32)])
    has_cut = phase == 'incomplete' or rng.random() < 0.3
    cut_k = rng.randint(0, size - 1) if has_cut else None
    end = rng.choice(['crash', 'crash', 'stop'])
    who = rng.choice(['both', 'both', 'both', 'dn', 'up'])
    victims = ['up', 'dn'] if who == 'both' else [who]
    rng.shuffle(victims)
    lag = rng.choice([0.0, 0.0, 0.0, 0.01, 0.5, 5.0])
    downtime = rng.choice([0.05, 1.0, 10.0, 60.0])
    gap = rng.choice([0.0, 0.5, 20.0])
    rate = min([x for x in limits if x] or [0]) * 1024
    est = size / rate if rate else 0.05
    delay = {
        'queued': rng.choice([0.0, 0.0, 0.001, 0.005]),
        'init-up': rng.choice([0.0, 0.0, 0.002, 0.01]),
        'init-dn': rng.choice([0.0, 0.0, 0.002, 0.01]),
        'transferring': rng.uniform(0.0, est),
        'incomplete': rng.choice([0.0, 0.01, 0.5, 5.0, 30.0]),
        'complete-first': rng.choice([0.0, 0.0, 0.001, 0.003]),
        'complete-both': rng.choice([0.0, 0.5, 30.0]),
        'random': rng.uniform(0.0, est * 1.2),
    }[phase]
    # features added later draw from their own stream
    rng3 = random.Random(f'{seed}:C17:crash2:{i}')
    # 'pinned': the last write was done by the previous version of the library (its stored format)
    fmt = 'pinned' if end == 'crash' and rng3.random() < 0.3 else 'current'
    # the application persists on change: a listener on the transfer events calls write_cache()
    app = None if fmt == 'pinned' else rng3.choice([None, None, 'sync', 'async'])
    periodic = not (app and rng3.random() < 0.5)      # False: the process ends after the last listener write
    user_remove = None
    if 'dn' in victims and fmt == 'current' and rng3.random() < 0.25:
        # the user removes the download at the instant; 'remove-cancelled': the task doing it is
        # cancelled while the removal is being notified, then the client is stopped
        user_remove = rng3.choice(['remove', 'remove', 'remove-cancelled'])
        if user_remove == 'remove-cancelled':
            end = 'stop'
        elif app:
            periodic = False
    k_app = (rng3.choice([0, 1, 3]), rng3.choice([0, 1, 2]))
    # the user logs in a moment after start(): until then nothing but the requests made while
    # loading can make the management job look at the loaded transfers
    pre_login = rng3.choice([0.0, 0.0, STARTUP_BOUND])
    source = make_source(('c17', seed, i), size)
    tm = TransferMonitor()
    V = Verdicts()
    obs = new_obs()
    cover: set = set()
    trace: list = []
    info: dict = {'persisted': {}, 'loads': 0, 'at_end': {}, 'end_changes': [], 'user_removed': None}

    async def main(w: World):
        from aioslsk.events import TransferAddedEvent, TransferProgressEvent, TransferRemovedEvent
        from aioslsk.shares.cache import SharesShelveCache
        from aioslsk.transfer.cache import TransferShelveCache
        loop = w.loop
        await w.start_server()
        dirs = {n: os.path.join(w.tmp, 'data-' + n) for n in ('up', 'dn')}
        for d in dirs.values():
            os.makedirs(d)
        pair = await setup_pair(w, {'file.bin': source},
                                transfer_cache_up=TransferShelveCache(dirs['up']),
                                transfer_cache_dn=TransferShelveCache(dirs['dn']))
        # the uploader's share index survives a restart like its transfers do
        pair.up.client.shares.cache = SharesShelveCache(dirs['up'])
        pair.up.client.shares.write_cache()
        if limits[0]:
            pair.up.client.network.set_upload_speed_limit(limits[0])
        if limits[1]:
            pair.dn.client.network.set_download_speed_limit(limits[1])
        w.net.planner = lambda node, host, port, attempt: ConnPlan(latency=rng.uniform(0.001, 0.03))
        remote_path = next(iter(pair.sources))
        snaps: dict = {}          # name -> snapshot at the last write of the current incarnation
        notify: dict = {}
        edge_base: dict = {}
        st = {'armed': True, 'fired': False, 'restarted': False, 'cut_used': False}
        fired = asyncio.Event()

        removed_model: dict = {}  # name -> id() of the transfers the application was told are removed
        removed_idents: dict = {}

        def wrap_write(name, mgr):
            orig = mgr.write_cache

            def write_cache():
                gone = removed_model.get(name, ())
                snaps[name] = [snap(t) for t in mgr.transfers if id(t) not in gone]
                trace.append((round(w.now, 4), 'write', name, [(e['id'][2][0], e['state']) for e in snaps[name]]))
                return orig()
            mgr.write_cache = write_cache

        def attach_app(name, h):
            """The application side of a client: follows removals; optionally persists on change."""
            mgr = h.client.transfers
            removed_model[name] = set()
            removed_idents[name] = set()

            def on_removed(event):
                removed_model[name].add(id(event.transfer))
                removed_idents[name].add(ident(event.transfer))
                if st.get('removal_notified') is not None:
                    st['removal_notified'].set()
            h.listen(TransferRemovedEvent, on_removed)           # priority 0
            if not app:
                return

            def app_write(event):
                obs['listener_writes_live'] += 1
                try:
                    mgr.write_cache()
                except Exception as exc:  # noqa
                    V(f'write-exception:{type(exc).__name__}', exc=repr(exc)[:300], who=name, where='listener')

            if app == 'sync':
                def on_change(event):
                    app_write(event)
            else:
                async def on_change(event):
                    for _ in range(k_app[0]):
                        await asyncio.sleep(0)
                    app_write(event)
                    for _ in range(k_app[1]):
                        await asyncio.sleep(0)
            h._listeners.append(on_change)
            for cls_ in (TransferAddedEvent, TransferRemovedEvent, TransferProgressEvent):
                h.client.events.register(cls_, on_change, priority=100)

        for n_ in ('up', 'dn'):
            wrap_write(n_, w.clients[n_].client.transfers)
            attach_app(n_, w.clients[n_])

        def cur_dn():
            h = w.clients.get('dn')
            ts = h.client.transfers.transfers if h is not None else []
            return ts[0] if ts else None

        def local_size(fc: FileConn):
            t = cur_dn()
            if t is None or not t.local_path or not os.path.exists(t.local_path):
                return 0
            return os.path.getsize(t.local_path)
        pair.cls.local_size_of = local_size

        def on_offset(fc: FileConn):
            obs['offset_checks'] += 1
            trace.append((round(w.now, 4), 'offset', fc.offset, 'local', fc.offset_local_size))
            if fc.offset != fc.offset_local_size:
                V('resume-corrupt:offset-on-wire-differs-from-local-size', offset_on_wire=fc.offset,
                  local_size=fc.offset_local_size, after_restart=st['restarted'])
            if cut_k is not None and not st['cut_used'] and not st['fired']:
                k = cut_k - fc.offset
                st['cut_used'] = True
                if k >= 0:
                    d = fc.payload_dir
                    fc.conn.plan.cut_dir, fc.conn.plan.cut_after, fc.conn.plan.cut_mode = d, fc.prefix[d] + k, 'rst'
        pair.cls.on_offset = on_offset

        def do_write(names):
            """The last periodic write (end == 'crash')."""
            for name in names:
                mgr = w.clients[name].client.transfers
                try:
                    if fmt == 'pinned':
                        live = [t for t in mgr.transfers if id(t) not in removed_model.get(name, ())]
                        snaps[name] = _write_pinned(dirs[name], live, set(), rng3.choice([3, 4]))
                        obs['crash_pinned_writes'] += 1
                        trace.append((round(w.now, 4), 'write-pinned', name,
                                      [(e['id'][2][0], e['state'], e['remotely_queued']) for e in snaps[name]]))
                    else:
                        mgr.write_cache()
                except Exception as exc:  # noqa
                    V(f'write-exception:{type(exc).__name__}', exc=repr(exc)[:300], who=name)

        def fire():
            if st['fired'] or not st['armed']:
                return
            st['fired'] = True
            trace.append((round(w.now, 4), 'fire', phase))
            for name in victims:
                info['at_end'][name] = [(t.direction.name[0], state_name(t))
                                        for t in w.clients[name].client.transfers.transfers]
            if end == 'crash' and periodic and not user_remove:
                do_write(victims)
            fired.set()

        def trigger():
            if st['fired'] or st.get('triggered'):
                return
            st['triggered'] = True
            if delay <= 0.0:
                fire()
            else:
                loop.call_later(delay, fire)

        def on_edge(transfer, old, new):
            trace.append((round(w.now, 4), transfer.direction.name[0], old, new))
            if st['armed'] and not st.get('triggered'):
                up_side = transfer.is_upload()
                if ((phase == 'init-up' and up_side and new == 'INITIALIZING') or
                        (phase == 'init-dn' and not up_side and new == 'INITIALIZING') or
                        (phase == 'transferring' and new in ('DOWNLOADING', 'UPLOADING')) or
                        (phase == 'incomplete' and new == 'INCOMPLETE') or
                        (phase == 'complete-first' and new == 'COMPLETE')):
                    trigger()
                elif phase == 'complete-both' and new == 'COMPLETE':
                    ts = [x for h in w.clients.values() for x in h.client.transfers.transfers]
                    if len(ts) >= 2 and all(state_name(x) == 'COMPLETE' for x in ts):
                        trigger()
            if st['restarted'] and transfer is cur_dn():
                if old == 'DOWNLOADING' or new == 'COMPLETE':
                    lp = transfer.local_path
                    data = open(lp, 'rb').read() if lp and os.path.exists(lp) else b''
                    if new == 'COMPLETE':
                        obs['complete_checks'] += 1
                        if data != source:
                            V('resume-corrupt:complete-not-intact', local_len=len(data), size=size,
                              first_diff=_first_diff(data, source), announced=transfer.filesize)
                    elif data != source[:len(data)]:
                        V('resume-corrupt:local-file-not-a-prefix', local_len=len(data),
                          first_diff=_first_diff(data, source), edge=f'{old}->{new}')
        tm.edge_hooks.append(on_edge)

        t0 = loop.time()
        await pair.dn.call(pair.dn.client.transfers.download('up', remote_path))
        if phase in ('queued', 'random'):
            trigger()
        loop.call_later(900.0, fire)       # whatever state it is in by then
        await fired.wait()
        st['armed'] = False

        # ---- the process end ---------------------------------------------------
        async def kill(names):
            me = asyncio.current_task()
            for _ in range(2000):
                busy = False
                for name in names:
                    for lst in w.net.listeners_of(name):
                        lst.close()
                    for tr in w.net.open_transports(owner=name):
                        busy = True
                        if not getattr(tr, '_vf_killed', False):
                            tr._vf_killed = True
                            tr.abort()
                for task in asyncio.all_tasks():
                    if task is me or task.done():
                        continue
                    if _node_of(task) in names:
                        task.cancel()
                        busy = True
                if not busy:
                    return True
                await asyncio.sleep(0.0005)
            return False

        if user_remove and cur_dn() is not None:
            h = w.clients['dn']
            t = cur_dn()
            info['user_removed'] = list(ident(t))
            if user_remove == 'remove-cancelled':
                st['removal_notified'] = asyncio.Event()

                async def slow(event):
                    await asyncio.sleep(30.0)
                h._listeners.append(slow)
                h.client.events.register(TransferRemovedEvent, slow, priority=rng3.choice([50, 150]))
                task = w.spawn('dn', h.client.transfers.remove(t), name='vf-user-remove')
                waiter = asyncio.ensure_future(st['removal_notified'].wait())
                await asyncio.wait([task, waiter], timeout=120.0, return_when=asyncio.FIRST_COMPLETED)
                waiter.cancel()
                if not st['removal_notified'].is_set() and not task.done():
                    raise RuntimeError('harness: the removal was never notified')
                task.cancel()
                await asyncio.gather(task, return_exceptions=True)
                if task.cancelled():
                    obs['user_removals_cancelled_live'] += 1
                st['removal_notified'] = None
                # the application was told the transfer is removed
                removed_model['dn'].add(id(t))
                removed_idents['dn'].add(ident(t))
            else:
                await h.call(h.client.transfers.remove(t))
            obs['user_removals_live'] += 1
            trace.append((round(w.now, 4), 'user-removed', user_remove))
        if end == 'crash':
            do_write([n_ for n_ in victims if n_ not in snaps or (periodic and user_remove)])
            if lag > 0:
                await asyncio.sleep(lag)
            if not await kill(victims):
                raise RuntimeError('harness: tasks of the ended client did not finish')
        else:
            for name in victims:
                await w.call(name, w.clients[name].client.stop())
            leftovers = sum(1 for task in asyncio.all_tasks()
                            if not task.done() and task is not asyncio.current_task() and _node_of(task) in victims)
            obs['tasks_left_after_stop'] += leftovers
            if not await kill(victims):
                raise RuntimeError('harness: tasks of the stopped client did not finish')
        for name in victims:
            if name not in snaps:
                raise RuntimeError(f'harness: no cache write observed for {name}')
            info['persisted'][name] = sorted(e['state'] for e in snaps[name]) or ['none']
            # what the end itself did to the states before they were written (observation only)
            for (d, before), e in zip(info['at_end'].get(name, []), snaps[name]):
                if before != e['state']:
                    info['end_changes'].append(f"{end}:{name}:{before}->{e['state']}({e['fail_reason']})")
        t_end = w.now
        olds = {name: w.clients.pop(name) for name in victims}
        trace.append((round(w.now, 4), 'ended', end, victims))

        def announce(name, status):
            # what the real server does for users that track ``name`` (AddUser): a status update
            from aioslsk.protocol.messages import GetUserStatus
            for other in list(w.clients):
                sess = w.server.by_user.get(other)
                if other != name and sess is not None and sess.open:
                    w.server.push(other, GetUserStatus.Response(name, status, False))
        for name in victims:
            announce(name, 0)

        # ---- restart -------------------------------------------------------------
        async def restart(name):
            old = olds[name]
            kw = {'shared': [pair.share_dir]} if name == 'up' else {}
            settings = w.make_settings(name, port=old.port, obf_port=old.obf_port, **kw)
            h = await w.add_client(
                name, settings, start=False, transfer_cache=TransferShelveCache(dirs[name]),
                shares_cache=SharesShelveCache(dirs['up']) if name == 'up' else None)
            mgr = h.client.transfers
            notify[name] = wrap_notify(mgr)
            probe = CycleProbe(mgr)
            elig: dict = {}
            expected = snaps.pop(name)
            gone = removed_idents.pop(name, set())
            orig_load = mgr.load_data

            async def load_data():
                try:
                    await orig_load()
                except Exception as exc:  # noqa
                    V(f'load-exception:{type(exc).__name__}', where='load_data', who=name, exc=repr(exc)[:300],
                      stored=[(list(e['id']), e['state']) for e in expected])
                    raise
                judge_load(V, obs, cover, expected, mgr, gone, f'{end}:{name}')
                elig['dls'], elig['uls'] = eligible_for_scheduling(list(mgr.transfers))
                attach_app(name, h)                    # the new application instance
                edge_base[name] = len(tm_edge_ids)     # read_cache's own repair edges precede add()
                obs['crash_loads_judged'] += 1
                info['loads'] += 1
                trace.append((round(w.now, 4), 'loaded', name, [state_name(t) for t in mgr.transfers]))
            mgr.load_data = load_data
            wrap_write(name, mgr)
            await w.call(name, h.client.start())
            if pre_login > 0:
                await asyncio.sleep(pre_login)
                probe.judge(V, obs, elig.get('dls', []), elig.get('uls', []), pre_login, f'crash:{name}')
            await w.call(name, h.client.login())
            announce(name, 2)

        if pre_login > 0:
            # like the real server, the scripted one does not serve a session that has not logged in
            from aioslsk.protocol.messages import AddUser, CannotConnect, ConnectToPeer, GetPeerAddress

            def not_logged_in(session, msg):
                return not session.logged_in
            for cls_ in (AddUser.Request, CannotConnect.Request, ConnectToPeer.Request, GetPeerAddress.Request):
                w.server.overrides[cls_] = not_logged_in
        await asyncio.sleep(downtime)
        st['restarted'] = True
        for k, name in enumerate(victims):
            if k:
                await asyncio.sleep(gap)
            try:
                await restart(name)
            except Exception as exc:  # noqa
                if any(s.startswith('load-exception') for s in V.items):
                    return {'aborted': 'load failed', 'exc': repr(exc)[:200]}
                raise

        def done():
            t = cur_dn()
            h = w.clients.get('up')
            ups = h.client.transfers.transfers if h is not None else []
            return (t is not None and state_name(t) == 'COMPLETE' and len(ups) >= 1 and
                    all(state_name(u) == 'COMPLETE' for u in ups))
        ok = await wait_until(done, 30.0 if info['user_removed'] else PROGRESS_BOUND, step=2.0)
        await settle(2.0)
        t = cur_dn()
        ups = w.clients['up'].client.transfers.transfers
        lp = t.local_path if t is not None else None
        data = open(lp, 'rb').read() if lp and os.path.exists(lp) else b''
        if data != source[:len(data)]:
            V('resume-corrupt:local-file-not-a-prefix', local_len=len(data), first_diff=_first_diff(data, source),
              edge='final')
        # every edge of a loaded transfer seen by the first listener must have reached its manager
        for name, calls in notify.items():
            mgr = w.clients[name].client.transfers
            mine = {id(x) for x in mgr.transfers}
            seen_tm = sum(1 for tid in tm_edge_ids[edge_base.get(name, 0):] if tid in mine)
            obs['fresh_checks'] += seen_tm
            if len([c for c in calls if c[0] in mine]) < seen_tm:
                V('not-fresh:listener-missing', who=name, edges_seen_by_first_listener=seen_tm,
                  edges_reported_to_manager=len(calls), via='edges after a restart')
        final = {
            'resumed_complete': bool(t is not None and state_name(t) == 'COMPLETE' and data == source),
            'both_complete': bool(ok), 'dn_state': state_name(t) if t is not None else None,
            'up_states': [state_name(u) for u in ups], 'virtual_s': round(w.now, 1), 't_end': round(t_end, 3),
            'dn_remotely_queued': t.remotely_queued if t is not None else None,
            'user_removed': info['user_removed'],
        }
        # ---- orderly stop: the cache written by stop() is loaded once more --------
        tm.edge_hooks.clear()
        await w.stop_clients()
        for name in ('up', 'dn'):
            if name not in snaps:
                continue
            expected = snaps[name]
            c3 = _make_client(os.path.join(w.tmp, 'third-' + name), dirs[name])
            try:
                await c3.transfers.load_data()
            except Exception as exc:  # noqa
                V(f'load-exception:{type(exc).__name__}', where='load_data after stop()', who=name,
                  exc=repr(exc)[:300])
                continue
            judge_load(V, obs, cover, expected, c3.transfers, removed_idents.get(name, set()), f'final-stop:{name}')
            obs['crash_loads_judged'] += 1
        return final

    # TransferMonitor.edges has no transfer identity: keep a parallel list of id(transfer)
    tm_edge_ids: list = []
    tm.edge_hooks.append(lambda transfer, old, new: tm_edge_ids.append(id(transfer)))

    out = run_world(f'{seed}:C17:crash:{i}', main, wall_timeout=240, monitors=[tm])
    tm.deactivate()
    if out.inconclusive:
        res['inconclusive'] = out.inconclusive
        return res
    final = out.result or {}
    ctx = {'phase': phase, 'end': end, 'who': who, 'size': size, 'limits': limits, 'cut_k': cut_k, 'lag': lag,
           'downtime': downtime, 'persisted': info['persisted'], 'last_write_format': fmt,
           'persist_on_change': app, 'periodic_write_at_end': periodic, 'user_remove': user_remove,
           'login_delay': pre_login}
    V.flush(res, run=ctx, trace=trace[-40:])
    for k, v in obs.items():
        runner.add_obs(res, k, v)
    runner.add_obs(res, 'crash_runs', 1)
    if final.get('user_removed'):
        runner.add_obs(res, 'user_removed_runs', 1)
    elif final.get('resumed_complete'):
        runner.add_obs(res, 'resumed_complete', 1)
    elif 'resumed_complete' in final:
        runner.add_obs(res, 'not_resumed', 1)
        runner.add_cover(res, 'not_resumed_shapes',
                         f"{end}|{who}|{info['persisted']}|final dn={final.get('dn_state')} up={final.get('up_states')}")
    for c in sorted(cover):
        runner.add_cover(res, 'persisted_states', c)
    for c in info['end_changes']:
        runner.add_cover(res, 'state_changed_by_the_end_before_write', c)
        runner.add_obs(res, 'state_changed_by_the_end_before_write', 1)
    safety = safety_net_violations(out)
    runner.add_obs(res, 'passive_safety_reports', len(safety))
    for sig, _ in safety:
        runner.add_cover(res, 'passive_safety_sigs', sig)
    runner.add_obs(res, 'passive_c03_reports', len(tm.violations))
    runner.add_cover(res, 'phases', f'{phase}/{end}/{who}')
    runner.add_cover(res, 'crash_features', f'{fmt}/app={app}/periodic={periodic}/{user_remove}')
    if info['loads']:
        res['csigs'].append(f"crash|{end}|{who}|{sorted(info['persisted'].items())}|cut={cut_k is not None}|"
                            f"{fmt}|{app}|{periodic}|{user_remove}")
    res['sample'] = {'kind': 'crash', **ctx, 'final': final, 'trace': trace[:40]}
    return res
