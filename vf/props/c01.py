"""C01 -- wire codec round-trip and byte compatibility (DESIGN §4 C01).

Oracle: the independent reference codec ``vf.refcodec`` over the pinned layout
``/verif/pinned/layout.json``; the reference itself is re-verified against the hand-written
byte vectors of the repository's tests (``/verif/pinned/vectors.json``) at the start of
every shard process -- a failure there is a broken harness (inconclusive), never a
violation.
"""
from __future__ import annotations

import collections
import dataclasses
import json
import os
import random
from typing import Any, Optional

from vf import refcodec as rc
from vf import runner
from vf.c01gen import Generator, gen_key, OBF_KEYS

ID = 'C01'
LEVEL = 'exploration'
RULE = (
    "Exhaustive over the 158 pinned message classes (69 server requests, 65 server responses, 2 peer-init, "
    "15 peer, 7 distributed); per class a seeded stream of in-domain values (quick 60, thorough 3000) built as "
    "instances of the real classes: value i sweeps the class's presence patterns (condition branch x prefix of "
    "trailing optionals) first in all-minimum, then all-maximum mode, then mixes boundary values (0, 1, 2^k-1, "
    "2^k, max per width; empty/ASCII/2-3-4-byte UTF-8/127..257-byte/64KiB strings; blobs; IPv4 corner and random; "
    "arrays of 0/1/many/256+ incl. nested records) with random ones. Each value is judged by R1 bytes == reference "
    "bytes (compressed: header + decompressed payload), R2 length prefix, R3 code, R4 M.deserialize, R5 family "
    "dispatcher returns an equal object of exactly class M, R6 real Server/PeerConnection encode/decode (plain and "
    "obfuscated, incl. reference-obfuscated input and reference de-obfuscation of the real output), R7 "
    "serialize_into() on a buffer that already holds bytes appends exactly the bytes of serialize(), R8 decoding is a "
    "pure function of the bytes (two decodes of the same bytes are equal, share no list with each other, with "
    "themselves or with the last messages decoded before; after a sentinel is appended to every list of one decoded "
    "object, the other decode, the earlier messages and a fresh decode of the same bytes still equal the value), "
    "R6-reencode: a message object is encoded through a real connection, changed in place to a second generated "
    "value of its class and encoded again through the same and through another connection object -- the wire must "
    "carry the reference bytes of the second value. kind=wire: a "
    "real client sends 2-6 messages at once on ONE peer connection (send_message from separate tasks and "
    "queue_message, sizes up to 400 KB, plain / obfuscated) while the scripted peer does not read, so the sends "
    "really suspend; the byte stream the peer then reads must parse into exactly the messages sent. kind=switch: a "
    "real incoming PeerConnection (obfuscated or plain port) reads, through a real StreamReader and its real reader "
    "loop, a reference-encoded stream: init frame, then -- after the library's own set_connection_state, which "
    "turns obfuscation off for D / F connections -- 1-9 generated frames of that type (or raw ticket/offset/data for "
    "F), all at once, back to back in one segment, per frame, or cut anywhere down to 1-7 byte segments; every frame "
    "delivered exactly once, equal, in order, connection still CONNECTED. Separately an "
    "obfuscation sweep: every length 0..300 (thorough 0..1100) x 10 keys x {zero, random} data, real encode/decode "
    "vs the reference. evaluations = values + obfuscation (length,key) cells. distinct_nontrivial = distinct "
    "(class, presence pattern, boundary-class vector of the fields) among values with >= 1 non-default field, plus "
    "distinct (length, key class) obfuscation cells."
)
ASSUMPTIONS = [
    "pinned/layout.json (extracted once from the pinned commit by tools/extract_layout.py) is the protocol layout "
    "other clients expect; the check never regenerates it from the tree under test.",
    "The reference codec is trusted because it reproduces all hand-written (message, bytes) pairs asserted by "
    "tests/unit/protocol/test_messages.py (323 pairs harvested, 318 distinct) and the 6 obfuscation vectors of "
    "test_obfuscation.py; this is re-verified in every shard process and a mismatch makes the run inconclusive.",
    "Domain of generated values: integers inside their wire width/sign; boolean fields hold bool; strings are valid "
    "Unicode without surrogates (so UTF-8 round-trips and the decoder's cp1252 fall-back is never taken); IPv4 as "
    "canonical dotted quads; a conditional (if_true/if_false) non-optional field is non-None iff its condition "
    "holds; optional fields are present as a prefix of the optionals whose own condition holds; an optional whose "
    "default is not None is never None (JoinRoom.Request.is_private, PrivateChatMessage.Response.is_direct).",
    "PeerInit.Request.ticket is generated as uint32 only: the uint64 branch of _PeerInitTicket is a read-side "
    "tolerance for foreign clients and is outside the round-trip claim.",
    "Values are generated by WIRE type, not by annotation (DistributedInit.unknown3 is annotated str but is a uint8 "
    "on the wire; JoinRoom.Request.is_private is annotated bool but is a uint32).",
    "Equality is the dataclasses' own == (so 1 == True; a bool field that comes back as int 1 is accepted).",
    "For the three zlib-compressed classes byte identity is demanded of the header and the DEcompressed payload; "
    "the zlib stream itself is not prescribed by the protocol.",
    "R5 (dispatch): a class is excluded only if another class of the same family/kind with the same code precedes "
    "it in dispatch order in the pinned layout (first subclass wins). In the pinned layout there is no such pair, "
    "so no class is excluded (coverage table r5_excluded is empty).",
    "R6 uses connection objects constructed with network=None (constructors only store it); the peer connection "
    "state is set by assigning connection_state (set_connection_state would start a reader task). The library never "
    "decodes server REQUESTS through a connection, so for those R6 checks only encode_message_data. "
    "obfuscation.generate_key is replaced by a seeded key source inside the harness process so that runs replay.",
    "R8 reads 'parsing the bytes back yields an equal message' as a statement about every decode, not only the "
    "first one in a process: the value a decode returns may depend on the bytes only, not on what holders of "
    "earlier decoded messages did to their (mutable, list-typed) fields. Only `list` objects are considered (a "
    "shared immutable container would be harmless). The sentinels the rule appends are removed again before the "
    "next value is judged.",
    "R6-reencode treats message objects as what they are declared to be -- mutable dataclasses: the bytes a "
    "connection puts on the wire are those of the object's field values at the time of the call. Classes without "
    "fields (17) and pairs where the second generated value equals the first are not judged by it.",
    "A class or field named by the pinned layout that no longer exists in the tree (rename = API change, not a wire "
    "change) makes the case inconclusive with a request to re-pin; classes present in the tree but absent from the "
    "pinned layout are listed in coverage table unpinned_classes and are not judged.",
]
MIN_OBS = {
    'quick': {'values_checked': 9000, 'r1_evals': 9000, 'r2_evals': 9000, 'r3_evals': 9000, 'r4_evals': 9000,
              'r5_evals': 9000, 'r6_evals': 9000, 'r6_obfuscated_evals': 1000, 'obf_cases': 3000,
              'classes_covered': 158, 'vectors_verified': 300, 'r7_evals': 8000, 'r8_evals': 8000,
              'r8_list_mutations': 1000, 'r6_reencode_evals': 7000, 'wire_runs': 50, 'wire_frames_parsed': 150,
              'wire_sends_suspended': 30, 'switch_runs': 56, 'switch_obf_to_plain_runs': 28,
              'switch_frames_delivered': 120},
    'thorough': {'values_checked': 450000, 'r1_evals': 450000, 'r2_evals': 450000, 'r3_evals': 450000,
                 'r4_evals': 450000, 'r5_evals': 450000, 'r6_evals': 450000, 'r6_obfuscated_evals': 50000,
                 'obf_cases': 11000, 'classes_covered': 158, 'vectors_verified': 300, 'r7_evals': 400000,
                 'r8_evals': 400000, 'r8_list_mutations': 80000, 'r6_reencode_evals': 350000,
                 'wire_runs': 2500, 'wire_frames_parsed': 8000, 'wire_sends_suspended': 1500,
                 'switch_runs': 2200, 'switch_obf_to_plain_runs': 1000, 'switch_frames_delivered': 5000},
}
QUICK_SCALE = 13      # the quick tier was enlarged by this factor after MIN_OBS['quick'] was measured
QUICK_FIXED = ('classes_covered', 'obf_cases', 'wire_runs', 'wire_frames_parsed', 'wire_sends_suspended',
               'switch_runs', 'switch_obf_to_plain_runs', 'switch_frames_delivered')      # counters of fixed-size parts (coverage, enumerations): not scaled
SHARD_TIMEOUT = {'quick': 600, 'thorough': 3600}
WHAT_FAILS = {
    'R1-bytes': 'serialised bytes differ from what the pinned protocol layout prescribes',
    'R2-length': 'length prefix differs from the number of bytes that follow',
    'R3-code': 'message code on the wire differs from the pinned code',
    'R4-roundtrip': 'M.deserialize(serialize(v)) != v',
    'R5-dispatch': 'family dispatcher does not return an equal object of the sending class',
    'R6-conn': 'connection-level encode/decode (plain or obfuscated) does not round-trip',
    'R7-append': 'serialize_into() on a buffer that already holds bytes does not append exactly the bytes of serialize()',
    'R8-pure': 'decoding is not a pure function of the bytes: decoded messages share mutable lists, or a decode '
               'returns a different value after a previously decoded message was mutated',
    'R6-conn:reencode': 'a message object changed in place and encoded again through a connection goes out with '
                        'bytes that are not those of its current field values',
    'wire:inbound:frames-after-obfuscation-switch': 'frames that follow the obfuscated init message of a D / F '
        'connection accepted on the obfuscated port (plain from then on) are lost, garbled or end the connection',
    'wire:inbound:frames-after-init': 'frames that follow the init message of an accepted connection that keeps '
        'its framing are lost, garbled or end the connection',
    'obf:encode': 'obfuscation.encode disagrees with the reference obfuscation',
    'obf:decode': 'obfuscation.decode does not invert the (reference or real) obfuscation',
}

VALUES_PER_CLASS = {'quick': 800, 'thorough': 60000}
VALUE_BATCH = {'quick': 60, 'thorough': 3000}
OBF_MAX_LEN = {'quick': 300, 'thorough': 1100}
OBF_BATCHES = {'quick': 14, 'thorough': 44}
WIRE_RUNS = {'quick': 60, 'thorough': 3000}
SWITCH_RUNS = {'quick': 64, 'thorough': 2400}    # inbound frames around the obfuscation switch (real reader loop)      # concurrent sends on one real connection under back-pressure


# ---------------------------------------------------------------------------------------
# cases

def cases(tier: str, seed: int) -> list[dict]:
    lay = rc.layout()
    out = []
    per, batch = VALUES_PER_CLASS[tier], VALUE_BATCH[tier]
    for ci, spec in enumerate(lay.messages):
        for lo in range(0, per, batch):
            out.append({'kind': 'msg', 'tier': tier, 'seed': seed, 'cls_from': ci, 'cls_to': ci + 1,
                        'cls_names': [spec['name']], 'val_from': lo, 'val_to': min(per, lo + batch)})
    nb = OBF_BATCHES[tier]
    for b in range(nb):
        # interleaved lengths so that every batch costs about the same
        out.append({'kind': 'obf', 'tier': tier, 'seed': seed, 'len_start': b, 'len_step': nb,
                    'len_max': OBF_MAX_LEN[tier]})
    for i in range(WIRE_RUNS[tier]):
        out.append({'kind': 'wire', 'tier': tier, 'seed': seed, 'i': i})
    for i in range(SWITCH_RUNS[tier]):
        out.append({'kind': 'switch', 'tier': tier, 'seed': seed, 'i': i})
    # spread heavy classes / obfuscation batches evenly over the shards, deterministically
    random.Random(f'{seed}:C01:order').shuffle(out)
    for idx, params in enumerate(out):
        params['case'] = idx
    return out


# ---------------------------------------------------------------------------------------
# per-process environment: reference self-check + real classes

class _Env:
    def __init__(self):
        self.lay = rc.layout()
        self.gen = Generator(self.lay)
        self.broken: Optional[str] = None
        self.vectors_verified = 0
        self.vectors_reported = False
        self.r5_excluded: dict[str, str] = {}
        try:
            self._layout_sanity()
            self._self_check()
            self._dispatch_ambiguity()
        except Exception as exc:  # noqa  (harness trouble)
            self.broken = f'reference self-check crashed: {type(exc).__name__}: {exc}'

    def _layout_sanity(self):
        for spec in list(self.lay.messages) + list(self.lay.records.values()):
            seen = {}
            for fs in spec['fields']:
                for key in ('if_true', 'if_false'):
                    if key in fs:
                        ctl = seen.get(fs[key])
                        if ctl is None or ctl.get('optional') or 'if_true' in ctl or 'if_false' in ctl:
                            raise rc.RefError(f"{spec['name']}.{fs['name']}: condition field must precede and be unconditional")
                seen[fs['name']] = fs

    def _self_check(self):
        with open(os.path.join(rc.PINNED, 'vectors.json')) as fh:
            vectors = json.load(fh)
        bad = []
        n = 0
        for vec in vectors['messages']:
            spec = self.lay.by_name.get(vec['cls'])
            if spec is None:
                bad.append(f"{vec['test']}: class {vec['cls']} not in layout")
                continue
            tree = rc.tree_from_json(vec['fields'])
            data = bytes.fromhex(vec['hex'])
            # A pair asserted by a *serialize* test pins the reference ENCODER, a pair asserted
            # by a *deserialize* test pins the reference DECODER. (Three hand-written pairs are
            # deliberately one-directional: PeerInit with a foreign uint64 ticket, and
            # PrivateChatMessage.Response with is_direct=None / absent -> default False.)
            try:
                parts = rc.split_frame(spec, data)
                ok = True
                if vec['direction'] == 'ser':
                    code, payload = rc.encode_parts(spec, tree, self.lay)
                    # (the length prefix is only demanded of serialize vectors: the uint64-ticket
                    # PeerInit deserialize vector carries a stale hand-written length)
                    ok = parts['declared_len'] == parts['following']
                    ok = ok and data[4:4 + len(code)] == code and parts['payload'] == payload
                    if not spec['compressed']:
                        ok = ok and rc.encode_message(spec, tree, self.lay) == data
                else:
                    dec, left = rc.decode_message(spec, data, self.lay)
                    ok = ok and left == 0 and dec == tree
            except rc.RefError as exc:
                ok = False
                bad.append(f"{vec['test']}: {exc}")
            if not ok:
                bad.append(f"{vec['test']} ({vec['cls']}, {vec['direction']}): reference disagrees with the hand-written bytes")
            n += 1
        nobf = 0
        for vec in vectors['obfuscation']:
            key, plain, obf = (bytes.fromhex(vec[k]) for k in ('key', 'plain', 'obfuscated'))
            if rc.obf_encode(plain, key) != obf or rc.obf_decode(obf) != plain:
                bad.append(f"{vec['test']}: reference obfuscation disagrees with the vector")
            nobf += 1
        if n < 300 or nobf < 3:
            bad.append(f'only {n} message / {nobf} obfuscation vectors in pinned/vectors.json')
        if bad:
            self.broken = 'reference codec failed its self-check: ' + '; '.join(bad[:5])
        self.vectors_verified = n + nobf

    def _dispatch_ambiguity(self):
        first: dict = {}
        for spec in self.lay.messages:
            # peer-init and distributed dispatchers read one byte at offset 4
            read = spec['code'] & 0xFF if spec['family'] in ('peerinit', 'distributed') else spec['code']
            key = (spec['family'], spec['kind'], read)
            if key in first:
                self.r5_excluded[spec['name']] = f"code {spec['code']} is dispatched to {first[key]} (earlier subclass)"
            else:
                first[key] = spec['name']


_ENV: Optional[_Env] = None


def _env() -> _Env:
    global _ENV
    if _ENV is None:
        _ENV = _Env()
    return _ENV


class _Repin(Exception):
    """The pinned layout names something the tree no longer has."""


def _real_modules():
    from aioslsk.protocol import messages as M, primitives as P, obfuscation as O
    from aioslsk.network import connection as C
    return M, P, O, C


def _build_record(lay: rc.Layout, P, tname: str, tree: dict):
    cls = getattr(P, tname, None)
    if cls is None:
        raise _Repin(f'record type {tname} no longer exists')
    kwargs = {fs['name']: _real_value(lay, P, fs, tree[fs['name']]) for fs in lay.records[tname]['fields']}
    try:
        return cls(**kwargs)
    except TypeError as exc:
        raise _Repin(f'{tname}: {exc}') from exc


def _real_value(lay: rc.Layout, P, fs: dict, value: Any):
    if value is None:
        return None
    if fs['type'] == 'array':
        if fs['subtype'] in lay.records:
            return [_build_record(lay, P, fs['subtype'], item) for item in value]
        return list(value)
    if fs['type'] in lay.records:
        return _build_record(lay, P, fs['type'], value)
    return value


def _real_class(M, spec: dict):
    outer = getattr(M, spec['cls'], None)
    cls = getattr(outer, spec['kind'], None) if outer is not None else None
    if cls is None:
        raise _Repin(f"message class {spec['name']} no longer exists")
    return cls


def _build_message(lay: rc.Layout, M, P, spec: dict, tree: dict):
    cls = _real_class(M, spec)
    kwargs = {fs['name']: _real_value(lay, P, fs, tree[fs['name']]) for fs in spec['fields']}
    try:
        return cls(**kwargs)
    except TypeError as exc:
        raise _Repin(f"{spec['name']}: {exc}") from exc


def _first_diff(a: bytes, b: bytes) -> int:
    for i, (x, y) in enumerate(zip(a, b)):
        if x != y:
            return i
    return min(len(a), len(b))


def _hx(data: Optional[bytes], limit: int = 400) -> Optional[str]:
    if data is None:
        return None
    h = bytes(data).hex()
    return h if len(h) <= 2 * limit else h[:2 * limit] + f'...({len(data)} bytes)'


def _exc(exc: BaseException) -> str:
    chain = [f'{type(exc).__name__}: {exc}'[:300]]
    if exc.__cause__ is not None:
        chain.append(f'caused by {type(exc.__cause__).__name__}: {exc.__cause__}'[:300])
    return ' / '.join(chain)


# ---------------------------------------------------------------------------------------
# the monitor for one value

class _Judge:
    def __init__(self, res: dict, params: dict):
        self.res = res
        self.params = params
        self.reported: set[str] = set()
        # R8: the last few decoded messages (label, decoded object, equal original, its lists), kept
        # alive so that list identities stay meaningful across values
        self.retained: collections.deque = collections.deque(maxlen=3)

    def violation(self, sig: str, **detail):
        if sig in self.reported:
            return
        self.reported.add(sig)
        runner.violation(self.res, sig, **detail)


def _dispatcher(M, spec: dict):
    fam, kind = spec['family'], spec['kind']
    if fam == 'server':
        return M.ServerMessage.deserialize_request if kind == 'Request' else M.ServerMessage.deserialize_response
    if fam == 'peerinit':
        return M.PeerInitializationMessage.deserialize_request
    if fam == 'peer':
        return M.PeerMessage.deserialize_request
    return M.DistributedMessage.deserialize_request


def _connections(C, spec: dict) -> list[tuple[str, Any, bool]]:
    """-> [(kind label, connection object, can_decode)] for the family of ``spec``."""
    fam, kind = spec['family'], spec['kind']
    if fam == 'server':
        conn = C.ServerConnection('server.sim', 2416, None)
        return [('server', conn, True)] if kind == 'Response' else [('server-encode', conn, False)]
    out = []
    if fam == 'peerinit':
        for label, obf in (('peerinit', False), ('peerinit-obf', True)):
            conn = C.PeerConnection('1.2.3.4', 1234, None, obfuscated=obf, connection_type=C.PeerConnectionType.PEER)
            if conn.connection_state != C.PeerConnectionState.AWAITING_INIT:
                raise RuntimeError('fresh PeerConnection is not AWAITING_INIT')
            out.append((label, conn, True))
        return out
    if fam == 'peer':
        for label, obf in (('peer', False), ('peer-obf', True)):
            conn = C.PeerConnection('1.2.3.4', 1234, None, obfuscated=obf, connection_type=C.PeerConnectionType.PEER)
            conn.connection_state = C.PeerConnectionState.ESTABLISHED
            out.append((label, conn, True))
        return out
    conn = C.PeerConnection('1.2.3.4', 1234, None, obfuscated=False, connection_type=C.PeerConnectionType.DISTRIBUTED)
    conn.connection_state = C.PeerConnectionState.ESTABLISHED
    return [('distributed', conn, True)]


_SENTINEL = '\x00<C01 R8 sentinel: appended by the holder of an earlier decoded message>'


def _lists_of(value: Any, out: list) -> list:
    """Every ``list`` object reachable from a decoded message (array fields, arrays of the
    records inside them), with repetition if one list is reachable twice."""
    if isinstance(value, list):
        out.append(value)
        for item in value:
            if isinstance(item, list) or dataclasses.is_dataclass(item):
                _lists_of(item, out)
    elif dataclasses.is_dataclass(value) and not isinstance(value, type):
        for fld in dataclasses.fields(value):
            item = getattr(value, fld.name)
            if isinstance(item, list) or dataclasses.is_dataclass(item):
                _lists_of(item, out)
    return out


def _check_pure_decode(judge: _Judge, env: _Env, M, spec: dict, cls, obj, real: bytes, witness: dict):
    """R8: the value a decode returns depends on the bytes only."""
    res = judge.res
    name = spec['name']
    sig = f'R8-pure:{name}'
    runner.add_obs(res, 'r8_evals')
    second = _dispatcher(M, spec) if name not in env.r5_excluded else (lambda data: cls.deserialize(0, data))
    try:
        d1 = cls.deserialize(0, real)
        d2 = second(real)
    except Exception:  # noqa  (a decode that raises is R4's / R5's finding)
        return
    if d1 != obj or d2 != obj:
        if d1 != d2:
            judge.violation(sig, what='two decodes of the same bytes differ', first=repr(d1)[:800], second=repr(d2)[:800],
                            bytes_hex=_hx(real), **witness)
        return      # (a decode that differs from the value is R4's / R5's finding)
    lists1, lists2 = _lists_of(d1, []), _lists_of(d2, [])
    if not lists1 and not lists2:
        judge.retained.append((f"{name} #{witness['value_index']}", d2, obj, lists2))
        return
    ids1 = {id(lst) for lst in lists1}
    shared = []
    if len(ids1) != len(lists1):
        shared.append('two array fields of ONE decoded message are the same list object')
    if any(id(lst) in ids1 for lst in lists2):
        shared.append('two decodes of the same bytes share a list object')
    for label, _dec, _orig, lsts in judge.retained:
        if any(id(lst) in ids1 for lst in lsts):
            shared.append(f'shares a list object with the previously decoded message {label}')
            break
    # the semantic side of the same coin: the holder of d1 appends to its lists
    runner.add_obs(res, 'r8_list_mutations')
    unique = list({id(lst): lst for lst in lists1}.values())
    for lst in unique:
        lst.append(_SENTINEL)
    changed = []
    try:
        if d2 != obj:
            changed.append('the other decode of the same bytes changed its value')
        for label, dec, orig, _lsts in judge.retained:
            if dec != orig:
                changed.append(f'the previously decoded message {label} changed its value')
                break
        try:
            d3 = cls.deserialize(0, real)
        except Exception as exc:
            changed.append(f'a fresh decode of the same bytes raised {_exc(exc)}')
        else:
            if d3 != obj:
                changed.append('a fresh decode of the same bytes no longer equals the value: ' + repr(d3)[:600])
    finally:
        for lst in unique:      # leave no trace for the following values
            if lst and lst[-1] is _SENTINEL:
                lst.pop()
    if shared or changed:
        judge.violation(sig, what='decoded messages are not independent of each other',
                        aliasing=shared, after_appending_to_every_list_of_one_decoded_message=changed,
                        bytes_hex=_hx(real), **witness)
    judge.retained.append((f"{name} #{witness['value_index']}", d2, obj, lists2))


def _check_reencode(judge: _Judge, env: _Env, mods, spec: dict, tree: dict, index: int, seed: int, krng, witness: dict):
    """R6-reencode: encode, change the object in place, encode again (same / another connection)."""
    M, P, O, C = mods
    res = judge.res
    name = spec['name']
    sig = f'R6-conn:reencode:{name}'
    if not spec['fields']:
        return
    tree2 = env.gen.gen_message(spec, seed, 10_000_019 + index)['tree']
    if tree2 == tree:
        runner.add_obs(res, 'r6_reencode_same_value')
        return
    runner.add_obs(res, 'r6_reencode_evals')
    ref2_code, ref2_payload = rc.encode_parts(spec, tree2, env.lay)
    ref2 = rc.encode_message(spec, tree2, env.lay)
    msg = _build_message(env.lay, M, P, spec, tree)
    other = _build_message(env.lay, M, P, spec, tree2)
    same_conns, other_conns = _connections(C, spec), _connections(C, spec)
    key = gen_key(krng)
    O.generate_key = lambda key=key: key
    try:
        same_conns[0][1].encode_message_data(msg)       # value 1 goes out (judged by R6 above)
    except Exception:  # noqa
        return
    for fs in spec['fields']:
        setattr(msg, fs['name'], getattr(other, fs['name']))
    detail = dict(witness, second_value=rc.tree_to_json(tree2))
    for which, (label, conn, _can) in (('the same connection object', same_conns[0]),
                                       ('another connection object', other_conns[-1])):
        try:
            wire = bytes(conn.encode_message_data(msg))
            plain = rc.obf_decode(wire) if conn.obfuscated else wire
            if spec['compressed']:
                parts = rc.split_frame(spec, plain)
                ok = (parts['payload'] == ref2_payload and plain[4:4 + len(ref2_code)] == ref2_code
                      and parts['declared_len'] == parts['following'])
            else:
                ok = plain == ref2
        except rc.RefError as exc:
            judge.violation(sig, what=f'second encode through {which} ({label}) is not a frame: {exc}', **detail)
            continue
        except Exception as exc:
            judge.violation(sig, what=f'second encode through {which} ({label}) raised', error=_exc(exc), **detail)
            continue
        if not ok:
            stale = plain == rc.encode_message(spec, tree, env.lay) if not spec['compressed'] else None
            judge.violation(sig, what=f'after the object was changed in place, the bytes sent through {which} ({label}) '
                            'are not those of its current field values', carries_the_old_value=stale,
                            first_diff_offset=_first_diff(plain, ref2), sent_hex=_hx(plain), expected_hex=_hx(ref2), **detail)


def _check_value(judge: _Judge, env: _Env, mods, spec: dict, index: int, seed: int) -> dict:
    M, P, O, C = mods
    res = judge.res
    name = spec['name']
    g = env.gen.gen_message(spec, seed, index)
    tree = g['tree']

    # -- harness side: reference bytes, reference decoder consistency -------------------------
    ref_code, ref_payload = rc.encode_parts(spec, tree, env.lay)
    ref_bytes = rc.encode_message(spec, tree, env.lay)
    back, left = rc.decode_message(spec, ref_bytes, env.lay)
    if back != tree or left:
        raise RuntimeError(f'reference decoder does not invert reference encoder for {name} #{index}')

    obj = _build_message(env.lay, M, P, spec, tree)
    cls = type(obj)
    witness = {'class': name, 'value_index': index, 'seed': seed, 'presence_pattern': g['pattern'],
               'value': rc.tree_to_json(tree)}

    # -- R1 / R2 / R3: the bytes ---------------------------------------------------------------
    runner.add_obs(res, 'values_checked')
    runner.add_obs(res, 'r1_evals')
    try:
        real = obj.serialize()
    except Exception as exc:  # the code under test cannot serialise an in-domain value
        judge.violation(f'R1-bytes:{name}', what='serialize() raised on an in-domain value', error=_exc(exc),
                        ref_hex=_hx(ref_bytes), **witness)
        return g
    if not isinstance(real, (bytes, bytearray)):
        judge.violation(f'R1-bytes:{name}', what=f'serialize() returned {type(real).__name__}', **witness)
        return g
    real = bytes(real)
    parts = None
    try:
        parts = rc.split_frame(spec, real)
    except rc.RefError as exc:
        judge.violation(f'R1-bytes:{name}', what=f'frame not parseable under the pinned layout: {exc}',
                        real_hex=_hx(real), ref_hex=_hx(ref_bytes), **witness)
    if parts is not None:
        if spec['compressed']:
            same = parts['payload'] == ref_payload and real[4:4 + len(ref_code)] == ref_code
            if not same:
                judge.violation(f'R1-bytes:{name}', what='code or decompressed payload differs from the pinned layout',
                                first_diff_offset_in_payload=_first_diff(parts['payload'], ref_payload),
                                real_payload_hex=_hx(parts['payload']), ref_payload_hex=_hx(ref_payload),
                                real_hex=_hx(real), **witness)
        elif real != ref_bytes:
            judge.violation(f'R1-bytes:{name}', what='bytes differ from the pinned layout',
                            first_diff_offset=_first_diff(real, ref_bytes), real_hex=_hx(real), ref_hex=_hx(ref_bytes),
                            **witness)
        runner.add_obs(res, 'r2_evals')
        if parts['declared_len'] != parts['following']:
            judge.violation(f'R2-length:{name}', declared=parts['declared_len'], following=parts['following'],
                            real_hex=_hx(real), **witness)
        runner.add_obs(res, 'r3_evals')
        if parts['code'] != spec['code']:
            judge.violation(f'R3-code:{name}', wire_code=parts['code'], pinned_code=spec['code'],
                            code_width=spec['code_width'], real_hex=_hx(real, 40), **witness)

    # -- R7: appending to a buffer that already holds bytes (serialize_into is public: batches, prefixes) ------
    if not spec['compressed']:
        runner.add_obs(res, 'r7_evals')
        prng = random.Random(f'{seed}:C01:prefix:{name}:{index}')
        prefix = bytes(real) if prng.random() < 0.5 else prng.randbytes(prng.choice([1, 3, 4, 5, 17, 300]))
        buf = bytearray(prefix)
        try:
            obj.serialize_into(buf)
        except Exception as exc:
            judge.violation(f'R7-append:{name}', what='serialize_into() raised', error=_exc(exc), **witness)
        else:
            if bytes(buf[:len(prefix)]) != prefix or bytes(buf[len(prefix):]) != real:
                judge.violation(f'R7-append:{name}', what='bytes appended to a non-empty buffer differ from serialize() '
                                'or the bytes already in the buffer were changed', prefix_len=len(prefix),
                                appended_hex=_hx(bytes(buf[len(prefix):])), real_hex=_hx(real), **witness)

    # -- R4: class-level parse ---------------------------------------------------------------------
    runner.add_obs(res, 'r4_evals')
    for label, data in (('own bytes', real), ('reference bytes', ref_bytes)):
        if label == 'reference bytes' and data == real:
            continue
        try:
            got = cls.deserialize(0, data)
        except Exception as exc:
            judge.violation(f'R4-roundtrip:{name}', what=f'deserialize() raised on {label}', error=_exc(exc),
                            bytes_hex=_hx(data), **witness)
            continue
        if type(got) is not cls or got != obj:
            judge.violation(f'R4-roundtrip:{name}', what=f'deserialize({label}) != value', got=repr(got)[:1500],
                            bytes_hex=_hx(data), **witness)

    # -- R5: family dispatcher --------------------------------------------------------------------
    if name in env.r5_excluded:
        runner.add_cover(res, 'r5_excluded', f'{name}: {env.r5_excluded[name]}')
    else:
        runner.add_obs(res, 'r5_evals')
        try:
            got = _dispatcher(M, spec)(real)
        except Exception as exc:
            judge.violation(f'R5-dispatch:{name}', what='dispatcher raised', error=_exc(exc), bytes_hex=_hx(real), **witness)
        else:
            if type(got) is not cls:
                judge.violation(f'R5-dispatch:{name}', what='dispatched to another class',
                                got_class=type(got).__qualname__, bytes_hex=_hx(real), **witness)
            elif got != obj:
                judge.violation(f'R5-dispatch:{name}', what='dispatcher result != value', got=repr(got)[:1500],
                                bytes_hex=_hx(real), **witness)

    # -- R8: decoding is a pure function of the bytes ---------------------------------------------
    _check_pure_decode(judge, env, M, spec, cls, obj, real, witness)

    # -- R6: through real connection objects ----------------------------------------------------
    krng = random.Random(f'{seed}:C01:key:{name}:{index}')
    for label, conn, can_decode in _connections(C, spec):
        runner.add_obs(res, 'r6_evals')
        sig = f'R6-conn:{label}:{name}'
        key = gen_key(krng)
        O.generate_key = lambda key=key: key
        try:
            wire = conn.encode_message_data(obj)
        except Exception as exc:
            judge.violation(sig, what='encode_message_data raised', error=_exc(exc), **witness)
            continue
        wire = bytes(wire)
        if conn.obfuscated:
            runner.add_obs(res, 'r6_obfuscated_evals')
            try:
                plain = rc.obf_decode(wire)
            except rc.RefError as exc:
                judge.violation(sig, what=f'obfuscated output unusable: {exc}', wire_hex=_hx(wire), **witness)
                continue
            if plain != real:
                judge.violation(sig, what='obfuscated output does not de-obfuscate (reference) to the serialised bytes',
                                key=wire[:4].hex(), first_diff_offset=_first_diff(plain, real), wire_hex=_hx(wire),
                                expected_plain_hex=_hx(real), **witness)
            inputs = [('own output', wire), ('reference-obfuscated bytes', rc.obf_encode(real, gen_key(krng)))]
        else:
            if wire != real:
                judge.violation(sig, what='encode_message_data differs from serialize()',
                                first_diff_offset=_first_diff(wire, real), wire_hex=_hx(wire), expected_hex=_hx(real), **witness)
            inputs = [('own output', wire)]
        if not can_decode:
            continue
        for ilabel, data in inputs:
            try:
                got = conn.decode_message_data(data)
            except Exception as exc:
                judge.violation(sig, what=f'decode_message_data raised on {ilabel}', error=_exc(exc),
                                wire_hex=_hx(data), **witness)
                continue
            if type(got) is not cls or got != obj:
                judge.violation(sig, what=f'decode_message_data({ilabel}) != value', got=repr(got)[:1500],
                                wire_hex=_hx(data), **witness)
    _check_reencode(judge, env, mods, spec, tree, index, seed, krng, witness)
    g['real_hex'] = _hx(real, 120)
    return g


def _run_msg(params: dict, res: dict, env: _Env):
    mods = _real_modules()
    M, P, O, C = mods
    judge = _Judge(res, params)
    orig_generate_key = O.generate_key
    n = 0
    try:
        for ci in range(params['cls_from'], params['cls_to']):
            spec = env.lay.messages[ci]
            runner.add_cover(res, 'classes', spec['name'])
            runner.add_cover(res, 'families', f"{spec['family']}:{spec['kind']}")
            for index in range(params['val_from'], params['val_to']):
                g = _check_value(judge, env, mods, spec, index, params['seed'])
                n += 1
                runner.add_cover(res, 'presence_patterns', f"{spec['name']}|{g['pattern']}")
                if g['nontrivial']:
                    res['csigs'].append(g['csig'])
                    if res['sample'] is None and g['mode'] == 'mix' and 'real_hex' in g:
                        res['sample'] = {'class': spec['name'], 'value_index': index, 'presence_pattern': g['pattern'],
                                         'boundary_classes': g['labels'], 'value': rc.tree_to_json(g['tree'], 60),
                                         'bytes': g['real_hex'], 'rules': 'R1-R8 evaluated, all held' if not res['violations'] else 'violations'}
        # classes of the tree that the pinned layout does not know (not judged; reported)
        pinned = set(env.lay.by_name)
        for base in (M.ServerMessage, M.PeerInitializationMessage, M.PeerMessage, M.DistributedMessage):
            for sub in base.__subclasses__():
                for kind in ('Request', 'Response'):
                    if getattr(sub, kind, None) is not None and f'{sub.__name__}.{kind}' not in pinned:
                        runner.add_cover(res, 'unpinned_classes', f'{sub.__name__}.{kind}')
    except _Repin as exc:
        res['inconclusive'] = f'pinned layout is out of date with the tree ({exc}); re-pin with tools/extract_layout.py after review'
    finally:
        O.generate_key = orig_generate_key
    res['evaluations'] = max(1, n)


# ---------------------------------------------------------------------------------------
# obfuscation sweep

def _key_class(key: bytes) -> str:
    k = int.from_bytes(key, 'little')
    return f'{k:08x}' if k in OBF_KEYS else 'seeded'


def _run_obf(params: dict, res: dict, env: _Env):
    _M, _P, O, _C = _real_modules()
    judge = _Judge(res, params)
    seed = params['seed']
    n = 0
    for length in range(params['len_start'], params['len_max'] + 1, params['len_step']):
        rng = random.Random(f'{seed}:C01:obf:{length}')
        keys = [k.to_bytes(4, 'little') for k in OBF_KEYS] + [rng.randbytes(4), rng.randbytes(4)]
        for key in keys:
            n += 1
            for dlabel, data in (('zeros', bytes(length)), ('random', rng.randbytes(length))):
                runner.add_obs(res, 'obf_cases')
                witness = {'length': length, 'key': key.hex(), 'data': dlabel, 'data_hex': _hx(data, 160), 'seed': seed}
                ref = rc.obf_encode(data, key)
                try:
                    real = bytes(O.encode(data, key))
                except Exception as exc:
                    judge.violation('obf:encode', what='encode raised', error=_exc(exc), **witness)
                    real = None
                if real is not None and real != ref:
                    judge.violation('obf:encode', what='encode(data, key) differs from the reference',
                                    first_diff_offset=_first_diff(real, ref), real_hex=_hx(real, 160), ref_hex=_hx(ref, 160), **witness)
                for ilabel, wire in (('own output', real), ('reference-encoded data', ref)):
                    if wire is None or (ilabel == 'reference-encoded data' and wire == real):
                        continue
                    try:
                        back = bytes(O.decode(wire))
                    except Exception as exc:
                        judge.violation('obf:decode', what=f'decode raised on {ilabel}', error=_exc(exc), **witness)
                        continue
                    if back != data:
                        judge.violation('obf:decode', what=f'decode({ilabel}) != data',
                                        first_diff_offset=_first_diff(back, data), got_hex=_hx(back, 160), **witness)
            res['csigs'].append(f'obf|len{length}|key{_key_class(key)}')
        # generated-key path (key=None): whatever key is drawn, both decoders must invert it
        runner.add_obs(res, 'obf_cases')
        data = rng.randbytes(length)
        try:
            wire = bytes(O.encode(data))
            if len(wire) != length + 4 or rc.obf_decode(wire) != data:
                judge.violation('obf:encode', what='encode(data) with a generated key is not de-obfuscated by the reference',
                                length=length, wire_hex=_hx(wire, 160), data_hex=_hx(data, 160))
            if bytes(O.decode(wire)) != data:
                judge.violation('obf:decode', what='decode(encode(data)) != data with a generated key',
                                length=length, wire_hex=_hx(wire, 160), data_hex=_hx(data, 160))
        except Exception as exc:
            judge.violation('obf:encode', what='generated-key path raised', error=_exc(exc), length=length)
        runner.add_cover(res, 'obf_length_classes',
                         '0' if length == 0 else '1-3' if length < 4 else '4-127' if length < 128 else
                         '128' if length == 128 else '129-255' if length < 256 else '256+')
    if res['sample'] is None:
        res['sample'] = {'obfuscation_batch': {k: params[k] for k in ('len_start', 'len_step', 'len_max')},
                         'keys': [f'{k:08x}' for k in OBF_KEYS] + ['2 seeded per length'], 'cells': n}
    res['evaluations'] = max(1, n)


# ---------------------------------------------------------------------------------------

def run_case(params: dict) -> dict:
    res = runner.new_result(params['case'])
    env = _env()
    if env.broken:
        res['inconclusive'] = env.broken
        return res
    if not env.vectors_reported:
        env.vectors_reported = True
        runner.add_obs(res, 'vectors_verified', env.vectors_verified)
    if params['kind'] == 'wire':
        from ..wirecases import run_wire_case
        run_wire_case(res, params)
    elif params['kind'] == 'switch':
        from ..wirecases import run_switch_case
        run_switch_case(res, params)
    elif params['kind'] == 'msg':
        _run_msg(params, res, env)
    else:
        _run_obf(params, res, env)
    return res


def finish(total: dict, tier: str, seed: int):
    total['obs']['classes_covered'] = len(total['cover'].get('classes', []))
    total['cover'].setdefault('r5_excluded', [])
    total['cover'].setdefault('unpinned_classes', [])
