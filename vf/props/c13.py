"""C13 — distributed tree: one parent, bounded live children, truthful advertised place (DESIGN §4 C13)."""
from __future__ import annotations

from .. import runner
from ..distcases import C13_DIRECTED, c13_length_for, run_c13_case

ID = 'C13'
LEVEL = 'exploration'
QUICK_SCALE = 10      # the quick tier was enlarged by this factor after MIN_OBS['quick'] was measured
RULE = (
    "One case = one simulated world: scripted server, the real client 'me' logged in, 3-4 scripted peers, one "
    "sequence of <= 10 abstract events, each applied by one harness function: potential_parents(subset) pushed by "
    "the server (the client dials those peers, type D), incoming_d(peer; in 18 % of the seeded ones the peer vanishes: "
    "it resets (75 %) or closes its connection 0-3 loop steps / 0.5-3 ms after the last byte of its PeerInit, the "
    "init frame in one segment or split after 4/5/9 bytes, on a connection with whole segments and one fixed "
    "latency equal to the RST latency, so that the reset can reach the client at the very instant the init frame "
    "completes), announce(peer, level, root, order in "
    "level-first/root-first/level-only/root-only; level 0 <=> root = sender; on every live D link of the peer), "
    "disconnect(peer, close|abort), connect_fail(peer, refuse|hang|slow(2-4.5 s): next direct connect of the client "
    "to it), potential_parents with 8-13 additional unreachable names ('ghosts': nobody listens, unknown to the "
    "server) and wait(t) - together the family 'more proposals than the documented 20-name cache, the connect to "
    "the first proposed user completes after its name left the cache' (12 % of the seeded sequences of length >= 7); "
    "stall(during: 1-3 peer events): the scripted server stops reading and the application sends one 400 kB "
    "private message, so the simulated socket buffers fill and every further write of the client to the server "
    "suspends until the server reads again (< 2 s, below the 10 s write timeout) - family 'child, parent and a "
    "silent candidate; during the stall the parent leaves and the candidate announces' in 7 % of the sequences of "
    "length >= 7; family 'the connect to a proposed user fails on both paths (refuse|hang + relayed CannotConnect, "
    "wait 11 s after a hang), then that user dials in' in 8 %; "
    "limits(ParentMinSpeed+ParentSpeedRatio, own speed answered to GetUserStats: documented child limit 0/1/3/11, "
    "acceptance off/on), reset (ResetDistributed), session_loss (server RST; optionally 1-2 peer events applied "
    "while the client has no session; then connect_server + login by the harness, reconnect.auto is off). Per case: "
    "connect mode race|fallback, per peer reaction to a relayed ConnectToPeer (pierce|cannot|ignore). First 118 "
    "cases: 59 hand-written sequences of length 1-8 (x both connect modes) so that the lowest-numbered witness is a "
    "short one; then seeded sequences whose length is non-decreasing in the case number (2..10). Even cases "
    "separate events by 0.5 virtual s of quiescence (history quantifier); odd cases fire bursts of 2-4 events with "
    "gaps of 0-3 loop yields / 1-8 ms, every remote party applying its own events in order (schedule quantifier), "
    "and are judged at the quiescent moment after each burst. Oracle at every quiescent moment: parent not in "
    "children (same connection; same user through a second connection is a separate signature); parent's and "
    "children's connections CONNECTED with both simulated endpoints alive; with a parent set, no other live D "
    "link whose peer announced level and root; at entry of every _add_child: acceptance on, len(children) < max, "
    "name not in the potential-parent list, connection not one the client itself opened (SimNet: dialled by 'me', or "
    "pierced by the scripted peer on the client's ConnectToPeer) (the library's own values, and the documented "
    "formula whenever a limits event has been settled in the current session; a name the client processed in a "
    "PotentialParents list of the current session counts as proposed whatever the library's cache holds, as long as "
    "<= 20 names were proposed); every connection that was taken as child and that nobody closed (both simulated "
    "endpoints open) is still in the children list (child-dropped-but-connection-open); last BranchLevel/BranchRoot/ToggleParentSearch of the "
    "current server session and last DistributedBranchLevel/Root on each child's link == position derived from "
    "the fold of the frames the client processed on the current parent's connection. A mismatch is reported once "
    "(re-reported only when expectation or told values change), under position:<server|child>:<first wrong field>:"
    "<situation>, situation = what happened since the previous quiescent check (no-parent, parent-set, "
    "parent-update, parent-lost, after-reset, after-relogin[:parent-lost|parent-set|parent-update]); a child that "
    "was never told anything: position:child:never-told:<situation>; server values equal to the position derived "
    "from an EARLIER announcement of the current parent: position:server-not-told-after-parent-update. Logged "
    "handler exceptions / loop exceptions: safety:<exception>:<raising function>:under:<handler>. Non-trivial: a "
    "parent was set at least once; "
    "distinct = mode + abstract event sequence with the role (parent/child/candidate) of the acting peer.")
ASSUMPTIONS = [
    "who the parent / the children are is read from the client's own DistributedNetwork.parent / .children; the "
    "property speaks about consistency with that choice, not about which candidate has to win",
    "level 0 announced by a peer means that peer is the root (root frame not needed); scripted peers stay "
    "protocol-legal: level 0 <=> root = sender, roots never equal the client's own name (the 'we are the root' "
    "shortcut is not described by the property) and never a scripted peer",
    "a child told level 0 need not be told the root",
    "the child limits before the first ParentMinSpeed/ParentSpeedRatio of a session are not defined by the "
    "documents: then only the library's own acceptance flag and maximum (read at entry of _add_child) are judged",
    "not judged: AcceptChildren told to the server, ChildDepth, whether an entitled peer IS accepted as child "
    "(only-if rule), which candidate becomes parent, children kept above a maximum that shrank later, the 60 s "
    "inactivity close (cases last < 10 virtual s)",
    "0.5 virtual s after the last event everything in flight has been handled (latencies <= 30 ms connect, 4 ms "
    "per segment); a connect planned to hang stays pending for the rest of the case",
    "class-level wrappers on DistributedNetwork._add_child/_set_parent/_unset_parent only record and call through",
]
MIN_OBS = {
    'quick': {'sequences': 410, 'events_applied': 2000, 'quiescence_checks': 1500, 'add_child_observed': 200,
              'position_checks': 2000, 'parents_set': 150, 'stalls_with_suspended_writes': 30,
              'in_events_with_vanishing_peer': 30},
    'thorough': {'sequences': 14500, 'events_applied': 70000, 'quiescence_checks': 55000, 'add_child_observed': 7000,
                 'position_checks': 70000, 'parents_set': 6000, 'stalls_with_suspended_writes': 1500},
}
SHARD_TIMEOUT = {'quick': 600, 'thorough': 5400}
N_RANDOM = {'quick': 4000, 'thorough': 400000}
WHAT_FAILS = {
    'parent-is-also-child': 'the parent peer object is also in the list of children',
    'parent-or-child-connection-dead': 'parent or child whose connection is not open at a quiescent moment',
    'child-accepted:': 'a child was added although acceptance was off / the limit was reached / the server had '
                       'proposed it as potential parent',
    'position:server-not-told-after-parent-update': 'the server still holds the position derived from an earlier '
                                                    'announcement of the current parent',
    'position:server:': 'branch level / root / parent search last told to the server differ from the derived position',
    'position:child:': 'branch level / root last told to a child differ from the derived position',
    'candidates-not-closed-after-parent-set': 'another peer that announced level and root stays connected',
    'position:child:never-told': 'a peer was added as child but never told a branch level',
    'safety:AttributeError:_get_advertised_branch_values': 'a distributed handler raised because the advertised '
                                                           'position needs a session and there was none',
}


def cases(tier: str, seed: int) -> list:
    out = []
    for mode in ('race', 'fallback'):
        for i in range(len(C13_DIRECTED)):
            out.append({'mode': 'directed', 'seed': seed, 'idx': i, 'connect_mode': mode})
    n = N_RANDOM[tier]
    for i in range(n):
        out.append({'mode': 'rand', 'seed': seed, 'idx': i, 'len': c13_length_for(i, n)})
    return out


def run_case(params: dict) -> dict:
    res = runner.new_result(params.get('case', 0))
    run_c13_case(res, params)
    return res
