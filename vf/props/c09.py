"""C09 — peer-chosen names stay inside the download directory, never clobber (DESIGN §4 C09).

Workload A (inputs): the shipped naming strategies, every chain of them that
contains ``DefaultNamingStrategy``, and the production entry point
``SharesManager.calculate_download_path`` are run on a real temporary download
directory with seeded pre-existing content; the chosen ``(dir, name)`` is judged
by R-contain / R-name / R-fresh (see ``_judge``).

Workload A2 (kind=history): names that are long in BYTES (200-300+ bytes of UTF-8,
1- to 4-byte characters, families sharing a long prefix) are chosen one after the
other in one directory, every chosen path being created before the next choice.

Workload B (schedules) lives in vf/c09sched.py: ``cases()`` emits dicts with a
``'kind'`` key and ``run_case`` dispatches on it.
"""
from __future__ import annotations

import itertools
import os
import random
import re
import shutil
import tempfile

from .. import runner

ID = 'C09'
LEVEL = 'exploration'
QUICK_SCALE = 3      # the quick tier was enlarged by this factor after MIN_OBS['quick'] was measured
RULE = ("kind=paths: a case is a batch of (remote path, directory pre-content) pairs, each run through 13 chains "
        "(all 11 permutations/sub-chains of Default, KeepDirectory, NumberDuplicate that contain Default, called "
        "through naming.chain_strategies, plus SharesManager.calculate_download_path with its default "
        "naming_strategies and with [Default, KeepDirectory, NumberDuplicate]); one evaluation = one (path, chain, "
        "pre-content) triple. The first pairs of every run are an enumeration (all 1- and 2-component paths over 11 "
        "component kinds; every last-component kind x every pre-content class, bare and below a plain directory; the "
        "name-less paths); the rest are seeded: 1-5 components drawn from {'..', '.', '', '@@alias', drive letters, "
        "plain, 200/300-char, non-ASCII, trailing space/dot, regex metacharacters, already-numbered} joined by "
        "seeded mixtures of \\ and /, repeated, leading and trailing separators. The download directory is a fresh "
        "real directory per pair, seeded by class: empty, missing, unrelated files, candidate exists as file / as "
        "directory, numbered siblings with gaps / all taken / zero-padded / '.bak'-suffixed / without the plain "
        "file / extension-less siblings, the same below the KeepDirectory sub-directory. Oracle per returned (dir, "
        "name): realpath(join(dir,name)) strictly below realpath(download dir) and no '..' component below it "
        "(contain); name not in {'', '.', '..'} and free of \\ and / (name); for chains in which NumberDuplicate "
        "runs last, the path does not exist (lexists) when returned (fresh). Non-trivial: the path has >= 2 "
        "components or the pre-content contains the candidate name; distinct = (chain, kinds of the last 3 "
        "components + count, separator class, pre-content class). Component kind 'longbytes' = names of 220-320 bytes "
        "in UTF-8 (ASCII, 2-, 3- and 4-byte characters, with and without extension, exactly 255 / 256 bytes); "
        "pre-content class 'trunc-exists' = files named like byte/character cuts of the candidate (and of its first "
        "numbered duplicate) at 200-255, with and without the extension kept. kind=history: 1-4 remote paths whose "
        "names come from one family of long-in-bytes names sharing a long prefix (same name again, a sibling, mixed; "
        "enumerated families first, then seeded: one of 8 characters repeated to 200-300 bytes, 3-4 tails/extensions), "
        "chosen one after the other in one directory through each of the 5 chains that end in NumberDuplicate (own "
        "directory per chain; production chains through calculate_download_path); every choice is judged as above and "
        "then created with open('xb') as the download would (an OSError of the OS, e.g. ENAMETOOLONG, creates nothing), "
        "so a later choice meets the earlier files. Non-trivial history: >= 2 steps or interacting pre-content; "
        "distinct = (chain, mode, byte-length/char-width/extension classes of the names, steps, pre-content class, "
        "separator class).")
ASSUMPTIONS = [
    "freshness ('does not exist yet when chosen') is demanded only of chains in which NumberDuplicateStrategy runs "
    "last (D>N, D>K>N, K>D>N, both production chains); a chain without it, or with a renaming strategy after it, "
    "is counted under not_judged_fresh (DESIGN C09 'Interpretation, stated')",
    "a remote path without any non-empty component ('', '\\\\', '//') has no file name: an exception there is "
    "counted as rejected_no_name and not judged; a value returned for such a path is judged like any other",
    "any exception for a path that has a name component is a violation (no local path is chosen at all)",
    "pre-existing content is regular files and directories only (no symlinks, fifos, unreadable directories); "
    "numbered siblings use indices < 1000 (NumberDuplicateStrategy materialises range(min, max) of the indices it "
    "finds; astronomically numbered local files are a local-resource matter outside this property)",
    "'names a regular file' is judged on the name (not '', '.', '..', no separator) and on containment; whether the "
    "operating system can create it (NAME_MAX for the 300-character names, a KeepDirectory sub-directory that "
    "exists as a file) is not judged",
    "the class 'dl-missing' (configured download directory not created yet, as on a first download: the library "
    "creates it after choosing the path) is part of 'all pre-existing contents'",
    "Linux path semantics (os.sep == '/'); a backslash in a returned name is still a violation because "
    "split_remote_path treats it as a separator",
    "a name the file system cannot hold (> NAME_MAX bytes) may be handed out unchanged (nothing can be created "
    "there, so nothing is clobbered) or refused with an OSError (counted rejected_overlong); what is never allowed is "
    "that the path handed out exists already, also when that path is a shortened form of the peer's name",
]
MIN_OBS = {
    'quick': {'paths_judged': 15000, 'contain_checks': 15000, 'fresh_checks': 5000, 'fresh_renamed': 800,
              'history_steps_judged': 2000, 'long_name_choices_judged': 1800, 'history_files_created': 800},
    'thorough': {'paths_judged': 700000, 'contain_checks': 700000, 'fresh_checks': 250000, 'fresh_renamed': 40000,
                 'history_steps_judged': 300000, 'long_name_choices_judged': 250000, 'history_files_created': 100000},
}
SHARD_TIMEOUT = {'quick': 300, 'thorough': 3000}
WHAT_FAILS = {
    'contain:': 'the chosen local path is not strictly inside the download directory',
    'name:': "the chosen file name is '', '.', '..' or contains a path separator",
    'fresh:': 'a chain ending in NumberDuplicateStrategy chose a path that already exists (…:earlier-download = '
              'the file an earlier download of this history was given; …:long-* = the name is long in bytes)',
    'exception:': 'no local path is chosen: the strategies raise for a remote path that has a file name',
}

PAIRS_PER_BATCH = 16
HISTS_PER_BATCH = 8

# ---------------------------------------------------------------------------
# chains

_CHAIN_ORDERS = [
    'D', 'D>K', 'K>D', 'D>N', 'N>D',
    'D>K>N', 'D>N>K', 'K>D>N', 'K>N>D', 'N>D>K', 'N>K>D',
]
PROD_CHAINS = ['prod-default', 'prod-DKN']
ALL_CHAINS = _CHAIN_ORDERS + PROD_CHAINS
# chains in which the duplicate strategy runs last: the only ones judged for freshness
FRESH_CHAINS = {'D>N', 'D>K>N', 'K>D>N', 'prod-default', 'prod-DKN'}
KEEP_CHAINS = {c for c in ALL_CHAINS if 'K' in c}


def _make_strategy(letter: str):
    from aioslsk import naming
    return {'D': naming.DefaultNamingStrategy, 'K': naming.KeepDirectoryStrategy,
            'N': naming.NumberDuplicateStrategy}[letter]()


def _build_chain(code: str) -> list:
    return [_make_strategy(x) for x in code.split('>')]


# ---------------------------------------------------------------------------
# remote path generation

LONG200 = 'L' * 196 + '.mp3'
LONG300 = 'M' * 296 + '.ogg'
# Names that are long in BYTES (UTF-8): around and beyond the usual 255-byte limit of a
# single file name, built from 1-, 2-, 3- and 4-byte characters, with and without an
# extension; each tuple is a family of names that share a long common prefix.
LONG_FAMILIES = [
    ('é' * 150 + ' - live.mp3', 'é' * 150 + ' - studio.mp3', 'é' * 150 + ' - live.flac'),   # 311+ bytes
    ('A' * 260 + '-one.mp3', 'A' * 260 + '-two.mp3'),                                      # 268 bytes, ASCII
    ('漢' * 90 + '.flac', '漢' * 90 + '字.flac', '漢' * 90),                                 # 270+ bytes, 3-byte
    ('𝄞' * 70 + 'a.ogg', '𝄞' * 70 + 'b.ogg'),                                              # 285 bytes, 4-byte
    ('é' * 140, 'é' * 140 + 'x'),                                                          # 280 bytes, no extension
    ('B' * 252 + '.mp3', 'B' * 252 + 'b.mp3'),                                             # 256 / 257 bytes
    ('B' * 251 + '.mp3',),                                                                 # 255 bytes exactly
    ('é' * 124 + '.mp3',),                                                                 # 252 bytes; ' (1)' makes 256
    ('C' * 216 + '.mp3', 'C' * 216 + ' (1).mp3'),                                          # 220 bytes: fits, numbered too
]
TOKENS = {
    'dotdot': ['..'],
    'dot': ['.'],
    'alias': ['@@abcde', '@@xyzzy'],
    'drive': ['C:', 'c:', 'Z:', 'C:stuff'],
    'plain': ['track.mp3', 'music', 'album', 'song.flac', 'readme', 'a.b.mp3', '.hidden', 'x', 'y.mp3'],
    'long': [LONG200, LONG300, 'd' * 200],
    'longbytes': [fam[0] for fam in LONG_FAMILIES],
    'nonascii': ['é.mp3', '漢字.flac', 'Ünïcode', 'файл.ogg'],
    'trail-space': ['track.mp3 ', 'dir ', ' '],
    'trail-dot': ['track.', 'dir.', '...'],
    'meta': ['a+b.mp3', '[x].mp3', '(y).mp3', 'a(b.mp3', 'c*d?.mp3', 'e^f$.mp3', 'g{1}.mp3', 'h|i.mp3', 'j).mp3'],
    'numbered': ['track (1).mp3', 'track (01).mp3', 'readme (2)'],
    # look-alikes: characters that compatibility normalisation (NFKC / NFKD) or case folding would turn into '.',
    # '..', '/' or '\\' - inside ONE component they are ordinary characters of a file name
    'lookalike': ['..\uff0fevil.mp3', '\uff0fetc\uff0fevil.mp3', '..\uff3cevil.mp3', '\u2025', '\u2024\u2024', '\uff0e\uff0e',
                  '\u2025\uff0fx.mp3', 'a\uff0fb.mp3', '\uff0e', '\u2215etc\u2215x', '\ufe52\ufe52'],
}
KINDS = list(TOKENS)
_TOKEN_KIND = {tok: kind for kind, toks in TOKENS.items() for tok in toks}
_KIND_WEIGHTS = {'dotdot': 4, 'dot': 3, 'alias': 2, 'drive': 2, 'plain': 8, 'long': 1, 'longbytes': 2, 'nonascii': 2,
                 'trail-space': 2, 'trail-dot': 2, 'meta': 4, 'numbered': 2, 'lookalike': 3, '': 3}
NAMELESS = ['', '\\', '//', '\\\\', '/\\/', '\\/\\\\']
_SEPS_BS = ['\\', '\\', '\\', '\\\\', '\\\\\\']
_SEPS_FS = ['/', '/', '/', '//', '///']
_SEPS_MIX = ['\\', '/', '\\', '/', '\\/', '/\\', '\\\\', '//', '\\//\\']
_META_CHARS = set('.^$*+?{}[]|()\\')
_REGEX_META = _META_CHARS - {'.', '\\'}

CONTENT_CLASSES = ['none', 'noise', 'plain-exists', 'dir-exists', 'numbered-gap', 'numbered-all-taken',
                   'zero-padded', 'bak-suffix', 'numbered-no-plain', 'sibling-ext', 'dl-missing', 'trunc-exists']
_GAP_VARIANTS = [['1', '3'], ['2', '3'], ['1', '2', '4'], ['3'], ['1', '2', '3', '5', '6'], ['2']]
_PAD_VARIANTS = [['01'], ['01', '2'], ['1', '02'], ['001', '1'], ['01', '02', '03']]
_NOISE = ['a+b (1).mp3', '[x].mp3', '(y).mp3', 'x (1).mp3', 'y (1).mp3', 'aab (1).mp3', 'other.txt',
          'track', ' (1)', '. (1)', '.. (1)', 'noext']


def _own_split(path: str) -> list[str]:
    """Independent reading of 'components': maximal runs without \\ or /."""
    out, cur = [], ''
    for ch in path:
        if ch in '\\/':
            if cur:
                out.append(cur)
            cur = ''
        else:
            cur += ch
    if cur:
        out.append(cur)
    return out


def _kind_of(comp: str) -> str:
    k = _TOKEN_KIND.get(comp)
    if k:
        return k
    if comp == '..':
        return 'dotdot'
    if comp == '.':
        return 'dot'
    if comp.startswith('@@'):
        return 'alias'
    if re.match(r'[a-zA-Z]:', comp):
        return 'drive'
    if len(comp.encode('utf-8', 'replace')) > 200 and (len(comp) < 150 or any(ord(c) > 127 for c in comp)):
        return 'longbytes'
    if len(comp) >= 150:
        return 'long'
    if any(ord(c) > 127 for c in comp):
        return 'nonascii'
    if comp.endswith(' '):
        return 'trail-space'
    if comp.endswith('.'):
        return 'trail-dot'
    if re.search(r' \(\d+\)', comp):
        return 'numbered'
    if any(c in _META_CHARS - {'.'} for c in comp):
        return 'meta'
    return 'plain'


def _sep_class(path: str) -> str:
    runs = re.findall(r'[\\/]+', path)
    if not runs:
        return 'nosep'
    chars = set(''.join(runs))
    cls = 'mix' if len(chars) == 2 else ('bs' if '\\' in chars else 'fs')
    if any(len(r) > 1 for r in runs):
        cls += '+rep'
    if path[0] in '\\/':
        cls += '+lead'
    if path[-1] in '\\/':
        cls += '+trail'
    return cls


def _enum_pairs() -> list[tuple[str, str]]:
    """Deterministic core: (remote_path, content_class). Shortest paths first so
    that the first witness of a signature is a minimal one."""
    out: list[tuple[str, str]] = []
    n = 0
    for last in KINDS:                                   # one component
        out.append((TOKENS[last][0], CONTENT_CLASSES[n % len(CONTENT_CLASSES)]))
        n += 1
    for parent, last in itertools.product(KINDS, KINDS):  # two components
        out.append((TOKENS[parent][0] + '\\' + TOKENS[last][0], CONTENT_CLASSES[n % len(CONTENT_CLASSES)]))
        n += 1
    for last in KINDS:                                   # last kind x content class
        for cls in CONTENT_CLASSES:
            out.append((TOKENS[last][0], cls))
            out.append(('music\\' + TOKENS[last][0], cls))
    for tok in TOKENS['meta'] + TOKENS['numbered'] + TOKENS['plain']:   # every meta/numbered token, taken names
        for cls in ('numbered-all-taken', 'numbered-gap', 'plain-exists'):
            out.append((tok, cls))
    for fam in LONG_FAMILIES:                            # every long-in-bytes name x the classes that can bite
        for tok in fam:
            for cls in ('trunc-exists', 'plain-exists', 'numbered-all-taken', 'none'):
                out.append((tok, cls))
            out.append(('@@abcde\\Music\\' + tok, 'trunc-exists'))
            out.append(('music\\' + tok, 'trunc-exists'))
    for p in NAMELESS:
        out.append((p, 'none'))
    out.append(('\\\\music\\\\track.mp3\\\\', 'plain-exists'))
    out.append(('/music//track.mp3/', 'numbered-all-taken'))
    out.append(('@@abcde\\music\\..\\track.mp3', 'plain-exists'))
    out.append(('music\\..\\..\\track.mp3', 'none'))
    out.append(('..\\..\\..', 'none'))
    return out


_ENUM = _enum_pairs()


def _random_pair(rng: random.Random) -> tuple[str, str]:
    if rng.random() < 0.02:
        return rng.choice(NAMELESS), rng.choice(['none', 'noise', 'dl-missing'])
    ncomp = rng.choice([1, 1, 2, 2, 2, 3, 3, 4, 5])
    kinds = rng.choices(list(_KIND_WEIGHTS), weights=list(_KIND_WEIGHTS.values()), k=ncomp)
    toks = [rng.choice(TOKENS[k]) if k else '' for k in kinds]
    style = rng.random()
    seps = _SEPS_BS if style < 0.40 else (_SEPS_FS if style < 0.55 else _SEPS_MIX)
    path = ''
    if rng.random() < 0.25:
        path += rng.choice(seps)
    for i, tok in enumerate(toks):
        if i:
            path += rng.choice(seps)
        path += tok
    if rng.random() < 0.25:
        path += rng.choice(seps)
    return path, rng.choice(CONTENT_CLASSES)


# ---------------------------------------------------------------------------
# download-directory pre-content

def _numbered(name: str, idx: str, suffix: str = '') -> str:
    stem, ext = os.path.splitext(name)
    return f'{stem} ({idx}){ext}{suffix}'


def _cut(b: bytes, limit: int) -> str:
    return b[:max(limit, 0)].decode('utf-8', errors='ignore')


def _trunc_variants(name: str) -> list[str]:
    """What a shortening of ``name`` to a file-system friendly length could produce
    (byte and character cuts, with and without keeping the extension, also of the
    first numbered duplicate). For a name that needs no shortening: the name."""
    out: list[str] = []
    for nth, base in enumerate((name, _numbered(name, '1'))):
        stem, ext = os.path.splitext(base)
        bb, sb, eb = base.encode('utf-8', 'replace'), stem.encode('utf-8', 'replace'), ext.encode('utf-8', 'replace')
        for limit in ((255, 254, 250, 240, 200) if nth == 0 else (255,)):
            out.append(_cut(bb, limit))                          # plain cut
            out.append(_cut(sb, limit - len(eb)) + ext)          # cut, extension kept
        out.append(base[:255])
        out.append(stem[:max(255 - len(ext), 0)] + ext)
    seen, res = set(), []
    for v in out:
        if v not in seen and v not in ('', '.', '..'):
            seen.add(v)
            res.append(v)
    return res


def _content_entries(cls: str, name: str, rng: random.Random) -> list[tuple[str, str]]:
    """[(entry name, 'f'|'d')] to create inside one directory for candidate ``name``."""
    if cls in ('none', 'dl-missing') or not name:
        return []
    ents: list[tuple[str, str]] = []
    if cls == 'noise':
        pass
    elif cls == 'plain-exists':
        ents.append((name, 'f'))
    elif cls == 'dir-exists':
        ents.append((name, 'd'))
        if rng.random() < 0.5:
            ents.append((_numbered(name, '1'), 'd'))
    elif cls == 'numbered-gap':
        ents.append((name, 'f'))
        ents += [(_numbered(name, i), 'f') for i in rng.choice(_GAP_VARIANTS)]
    elif cls == 'numbered-all-taken':
        ents.append((name, 'f'))
        ents += [(_numbered(name, str(i)), 'f') for i in range(1, rng.randint(1, 5) + 1)]
    elif cls == 'zero-padded':
        ents.append((name, 'f'))
        ents += [(_numbered(name, i), 'f') for i in rng.choice(_PAD_VARIANTS)]
    elif cls == 'bak-suffix':
        ents.append((name, 'f'))
        ents.append((_numbered(name, '1'), 'f'))
        ents.append((_numbered(name, '2', '.bak'), 'f'))
        if rng.random() < 0.5:
            ents.append((_numbered(name, '3'), 'f'))
    elif cls == 'numbered-no-plain':
        ents += [(_numbered(name, str(i)), 'f') for i in range(1, rng.randint(1, 3) + 1)]
    elif cls == 'trunc-exists':
        ents += [(v, 'f') for v in _trunc_variants(name)]
    elif cls == 'sibling-ext':
        stem, _ext = os.path.splitext(name)
        ents.append((name, 'f'))
        for sib in (stem, stem + ' (1)', stem + ' (1).mp3', stem + ' (1).flac', stem + '.mp3.bak'):
            if sib and sib != name:
                ents.append((sib, 'f'))
    if cls == 'noise' or rng.random() < 0.5:
        ents += [(n, 'f') for n in _NOISE if n != name]
    return ents


def _seed_dir(directory: str, entries: list[tuple[str, str]], created: list[str], rel_to: str):
    try:
        os.makedirs(directory, exist_ok=True)
    except OSError:
        return
    for ent, typ in entries:
        if ent in ('', '.', '..') or '/' in ent:
            continue
        full = os.path.join(directory, ent)
        try:
            if typ == 'd':
                os.mkdir(full)
            else:
                fd = os.open(full, os.O_CREAT | os.O_EXCL | os.O_WRONLY, 0o644)
                os.close(fd)
            created.append(os.path.relpath(full, rel_to) + ('/' if typ == 'd' else ''))
        except OSError:
            # name collides with a directory created for another purpose, or is
            # beyond NAME_MAX: that entry is simply not part of this pre-content
            continue


def _build_tree(pair_root: str, remote_path: str, cls: str, rng: random.Random) -> tuple[str, list[str], str]:
    """Create <pair_root>/outer/dl with pre-content. Returns (download_dir, created
    entries relative to outer, where-class)."""
    outer = os.path.join(pair_root, 'outer')
    dl = os.path.join(outer, 'dl')
    os.makedirs(outer)
    created: list[str] = []
    if cls == 'dl-missing':
        return dl, created, 'missing'
    os.mkdir(dl)
    comps = _own_split(remote_path)
    name = comps[-1] if comps else ''
    where = 'root'
    keepdir = None
    if len(comps) >= 2:
        parent = comps[-2]
        if not parent.startswith('@@') and not re.match(r'[a-zA-Z]:', parent):
            where = rng.choice(['both', 'both', 'root', 'keepdir'])
            if where != 'root':
                keepdir = os.path.join(dl, parent)     # for '..' this is <outer>: still inside the scratch root
    if keepdir is not None:
        _seed_dir(keepdir, _content_entries(cls, name, rng), created, outer)
    if where != 'keepdir':
        _seed_dir(dl, _content_entries(cls, name, rng), created, outer)
    return dl, created, where


# ---------------------------------------------------------------------------
# oracle

def _mechanism(kinds: list[str], chain: str, name) -> str:
    if name == '':
        return 'empty-last'
    if name == '..':
        return 'dotdot-last'
    if name == '.':
        return 'dot-last'
    if isinstance(name, str) and ('/' in name or '\\' in name):
        return 'separator-in-name'
    if chain in KEEP_CHAINS and len(kinds) >= 2 and kinds[-2] in ('dotdot', 'dot'):
        return kinds[-2] + '-parent'
    return (kinds[-1] if kinds else 'nameless')


def _judge(res: dict, chain: str, remote_path: str, kinds: list[str], cls: str, dl: str, out, ctx: dict):
    """Judge one returned (dir, name)."""
    runner.add_obs(res, 'paths_judged')
    if (not isinstance(out, tuple) or len(out) != 2 or not isinstance(out[0], str)
            or not isinstance(out[1], str)):
        runner.violation(res, f'name:{chain}:not-a-dir-name-pair', returned=repr(out)[:200], **ctx)
        return
    d, name = out
    mech = _mechanism(kinds, chain, name)
    full = os.path.join(d, name)

    # R-name
    runner.add_obs(res, 'name_checks')
    if name in ('', '.', '..') or '/' in name or '\\' in name:
        runner.violation(res, f"name:{mech}:{'prod' if chain.startswith('prod') else 'chain'}", **ctx)
        return  # containment of an invalid name is the same mechanism: reported once

    # R-contain (+ R-dotdot): strictly below the download directory, by realpath
    # and without any '..' component in the un-normalised part below it
    runner.add_obs(res, 'contain_checks')
    failed = []
    base = os.path.realpath(dl)
    real = os.path.realpath(full)
    if real == base:
        failed.append('realpath-equals-download-dir')
    elif os.path.commonpath([real, base]) != base:
        failed.append('realpath-outside-download-dir')
    if d == dl or d.startswith(dl + os.sep):
        below = os.path.join(d, name)[len(dl):]
        if '..' in below.split(os.sep):
            failed.append('dotdot-component-below-download-dir')
    else:
        failed.append('dir-not-prefixed-by-download-dir')
    if failed:
        runner.violation(res, f"contain:{mech}:{'prod' if chain.startswith('prod') else 'chain'}", failed=failed,
                         realpath_rel_to_download_dir=os.path.relpath(real, base), **ctx)

    # R-fresh: only where the duplicate strategy has the last word
    if chain in FRESH_CHAINS:
        runner.add_obs(res, 'fresh_checks')
        comps = _own_split(remote_path)
        if comps and name != comps[-1]:
            runner.add_obs(res, 'fresh_renamed')
        if os.path.lexists(full):
            # label: a candidate name that is long in bytes, or has regex metacharacters, is its own mechanism class
            if max(len(x.encode('utf-8', 'replace')) for x in (name, comps[-1] if comps else '')) > 200:
                existing = 'long-' + cls
            else:
                existing = 'regex-meta' if (comps and set(comps[-1]) & _REGEX_META) else cls
            typ = 'dir' if os.path.isdir(full) else 'file'
            runner.violation(res, f'fresh:{chain}:{existing}', exists_as=typ,
                             listing=sorted(os.listdir(d))[:40] if os.path.isdir(d) else None, **ctx)
    else:
        runner.add_obs(res, 'not_judged_fresh')


# ---------------------------------------------------------------------------
# workload A

def _make_managers(dl_placeholder: str):
    from aioslsk.events import EventBus
    from aioslsk.settings import Settings
    from aioslsk.shares.manager import SharesManager
    from aioslsk import naming

    mgrs = {}
    for code in PROD_CHAINS:
        settings = Settings(credentials={'username': 'u', 'password': 'p'})
        settings.shares.download = dl_placeholder
        mgr = SharesManager(settings, EventBus(), network=None)  # type: ignore[arg-type]
        if code == 'prod-DKN':
            mgr.naming_strategies = [naming.DefaultNamingStrategy(), naming.KeepDirectoryStrategy(),
                                     naming.NumberDuplicateStrategy()]
        mgrs[code] = (mgr, settings)
    return mgrs


def _pairs_for(params: dict) -> list[tuple[str, str, int]]:
    """(remote_path, content class, per-pair rng seed index) of this batch."""
    if params.get('explicit'):
        return [(e['remote_path'], e.get('content', 'none'), i) for i, e in enumerate(params['explicit'])]
    rng = random.Random(f"{params['seed']}:{ID}:{params['case']}")
    out = []
    start = params['start']
    for j in range(params['n']):
        g = start + j
        if g < len(_ENUM):
            rp, cls = _ENUM[g]
        else:
            rp, cls = _random_pair(rng)
        out.append((rp, cls, g))
    return out


def _run_paths(params: dict) -> dict:
    from aioslsk import naming

    res = runner.new_result(params['case'])
    pairs = _pairs_for(params)
    chains = {code: _build_chain(code) for code in _CHAIN_ORDERS}
    root = tempfile.mkdtemp(prefix='vf-c09-')
    evaluations = 0
    try:
        mgrs = _make_managers(os.path.join(root, 'unset'))
        for rp, cls, g in pairs:
            prng = random.Random(f"{params['seed']}:{ID}:pair:{g}:{rp}")
            pair_root = os.path.join(root, f'p{g}')
            os.makedirs(pair_root)
            dl, created, where = _build_tree(pair_root, rp, cls, prng)
            comps = _own_split(rp)
            kinds = [_kind_of(c) for c in comps]
            sepc = _sep_class(rp)
            # no component that could be a file name: '', '.' and '..' are not names
            # (statement: "never '.', '..' or empty"), rejecting such a path is not judged
            nameless = not [c for c in comps if c not in ('.', '..')]
            interacts = cls not in ('none', 'noise', 'dl-missing')
            nontrivial = len(comps) >= 2 or interacts
            runner.add_cover(res, 'content_classes', cls)
            runner.add_cover(res, 'content_where', where)
            runner.add_cover(res, 'sep_classes', sepc)
            runner.add_cover(res, 'last_kinds', kinds[-1] if kinds else 'nameless')
            runner.add_cover(res, 'component_counts', min(len(comps), 6))
            before = _snapshot(pair_root)
            shown = [_abbr(c) for c in created[:30]]
            for code in ALL_CHAINS:
                evaluations += 1
                runner.add_obs(res, 'subcases')
                runner.add_cover(res, 'chains', code)
                ctx = {'remote_path': _abbr(rp), 'chain': code, 'content': cls, 'content_where': where,
                       'pre_content': shown, 'download_dir': 'outer/dl'}
                try:
                    if code in mgrs:
                        mgr, settings = mgrs[code]
                        settings.shares.download = dl
                        out = mgr.calculate_download_path(rp)
                    else:
                        out = naming.chain_strategies(chains[code], rp, dl)
                except Exception as exc:  # noqa  (code under test)
                    if nameless:
                        runner.add_obs(res, 'rejected_no_name')
                        runner.add_cover(res, 'rejected_with', type(exc).__name__)
                    elif isinstance(exc, OSError) and _overlong(comps):
                        runner.add_obs(res, 'rejected_overlong')     # OS limit: refusing the name is allowed
                    else:
                        runner.violation(res, f'exception:{type(exc).__name__}:{code}',
                                         message=str(exc)[:200], **ctx)
                        runner.add_obs(res, 'exceptions_on_named_paths')
                    continue
                if nameless:
                    runner.add_obs(res, 'nameless_returned_a_path')
                # the returned (dir, name), dir written relative to the parent of the download dir 'outer/dl'
                ctx['returned'] = [_abbr(_show(out[0], dl)), _abbr(out[1])] \
                    if isinstance(out, tuple) and len(out) == 2 and isinstance(out[0], str) else None
                _judge(res, code, rp, kinds, cls, dl, out, ctx)
                if nontrivial:
                    res['csigs'].append(f"{code}|{len(kinds)}:{','.join(kinds[-3:])}|{sepc}|{cls}/{where}")
            # choosing a path must not change the tree (a strategy that created or
            # removed something would invalidate the later chains' pre-content)
            if _snapshot(pair_root) != before:
                res['inconclusive'] = f'pre-content changed while choosing paths for {rp!r}'
            if res['sample'] is None and nontrivial and len(comps) >= 2 and interacts:
                res['sample'] = {'kind': 'paths', 'remote_path': _abbr(rp), 'content_class': cls,
                                 'content_where': where, 'pre_content': shown[:12], 'chains': ALL_CHAINS,
                                 'prod_default_chose': _rel_choice(mgrs, 'prod-default', rp, dl),
                                 'prod_DKN_chose': _rel_choice(mgrs, 'prod-DKN', rp, dl)}
            shutil.rmtree(pair_root, ignore_errors=True)
    finally:
        shutil.rmtree(root, ignore_errors=True)
    res['evaluations'] = evaluations
    return res


# ---------------------------------------------------------------------------
# workload A2: short download histories with names that are long in bytes

NAME_MAX = 255
_HIST_PREFIXES = ['', '@@abcde\\Music\\Album\\', 'music\\', 'C:\\music/', '@@abcde\\']
_CONTROL_FAMILY = ('track.mp3', 'track.flac', 'track')


def _overlong(comps: list[str]) -> bool:
    return any(len(c.encode('utf-8', 'replace')) > NAME_MAX - 8 for c in comps)


def _gen_family(rng: random.Random) -> tuple[str, ...]:
    """A seeded family: one character repeated up to a byte length in 200..300, a few
    different tails and extensions behind the same long prefix."""
    ch = rng.choice(['a', 'Z', 'é', 'ü', '漢', 'ж', '𝄞', '😀'])
    width = len(ch.encode('utf-8'))
    target = rng.randint(200, 300)
    ext = rng.choice(['', '.mp3', '.flac', '.ogg', '.é'])
    n = max(1, (target - len(ext.encode('utf-8'))) // width)
    stem = ch * n
    tails = rng.sample(['', 'a', 'b', ' - live', ' - studio', ' (1)', '字'], 3)
    fam = [stem + t + ext for t in tails]
    if ext and rng.random() < 0.5:
        fam.append(stem + tails[0] + rng.choice(['.mp3', '.wav', '']))
    return tuple(fam)


def _hist_enum() -> list[dict]:
    out = []
    for fam in LONG_FAMILIES + [_CONTROL_FAMILY]:
        for prefix in ('', '@@abcde\\Music\\Album\\', 'music\\'):
            out.append({'steps': [prefix + fam[0], prefix + fam[0]], 'content': 'none', 'mode': 'same'})
            if len(fam) > 1:
                out.append({'steps': [prefix + fam[0], prefix + fam[1], prefix + fam[-1]], 'content': 'none',
                            'mode': 'sibling'})
        out.append({'steps': [fam[0]], 'content': 'trunc-exists', 'mode': 'single'})
        out.append({'steps': [fam[0], fam[0], fam[0]], 'content': 'plain-exists', 'mode': 'same'})
    return out


_HIST_ENUM = _hist_enum()


def _random_history(rng: random.Random) -> dict:
    r = rng.random()
    fam = rng.choice(LONG_FAMILIES) if r < 0.35 else (_CONTROL_FAMILY if r < 0.45 else _gen_family(rng))
    mode = rng.choice(['same', 'same', 'sibling', 'mixed'])
    nsteps = rng.choice([2, 2, 3, 4])
    first = rng.choice(fam)
    names = [first]
    for _ in range(nsteps - 1):
        if mode == 'same':
            names.append(first)
        elif mode == 'sibling':
            names.append(rng.choice([n for n in fam if n != names[-1]] or [first]))
        else:
            names.append(rng.choice(fam))
    prefix = rng.choice(_HIST_PREFIXES)
    steps = []
    for n in names:
        pre = prefix if rng.random() < 0.85 else rng.choice(_HIST_PREFIXES)
        steps.append(pre + n)
    return {'steps': steps, 'mode': mode,
            'content': rng.choice(['none', 'none', 'trunc-exists', 'noise', 'plain-exists', 'numbered-all-taken'])}


def _byte_class(name: str) -> str:
    nb = len(name.encode('utf-8', 'replace'))
    bucket = ('<=200' if nb <= 200 else '201-251' if nb <= 251 else '252-255' if nb <= 255
              else '256-300' if nb <= 300 else '>300')
    width = max((len(c.encode('utf-8', 'replace')) for c in name), default=1)
    return f"{bucket}/w{width}/{'ext' if os.path.splitext(name)[1] else 'noext'}"


def _run_history(params: dict) -> dict:
    """Each history: 1-4 remote paths chosen one after the other in the same download
    directory; every chosen path is judged like in kind=paths and then *created* (as
    the download would), so that the next choice meets what the earlier ones left.
    Every chain in which the duplicate strategy runs last gets its own directory."""
    from aioslsk import naming

    res = runner.new_result(params['case'])
    if params.get('explicit'):
        hists = [(i, h) for i, h in enumerate(params['explicit'])]
    else:
        rng = random.Random(f"{params['seed']}:{ID}:hist:{params['case']}")
        hists = []
        for j in range(params['n']):
            g = params['start'] + j
            hists.append((g, _HIST_ENUM[g] if g < len(_HIST_ENUM) else _random_history(rng)))
    chains = {code: _build_chain(code) for code in _CHAIN_ORDERS}
    root = tempfile.mkdtemp(prefix='vf-c09h-')
    evaluations = 0
    try:
        mgrs = _make_managers(os.path.join(root, 'unset'))
        for g, hist in hists:
            steps, cls, mode = hist['steps'], hist.get('content', 'none'), hist.get('mode', 'explicit')
            first_name = (_own_split(steps[0]) or [''])[-1]
            sig_names = ','.join(sorted({_byte_class((_own_split(st) or [''])[-1]) for st in steps}))
            runner.add_cover(res, 'history_modes', mode)
            runner.add_cover(res, 'history_name_classes', sig_names)
            for code in sorted(FRESH_CHAINS):
                prng = random.Random(f"{params['seed']}:{ID}:hist:{g}:{steps[0]}")
                pair_root = os.path.join(root, f'h{g}-{ALL_CHAINS.index(code)}')
                os.makedirs(pair_root)
                dl, created, where = _build_tree(pair_root, steps[0], cls, prng)
                real_root = os.path.realpath(pair_root)
                made: list[str] = []
                trail = []
                runner.add_obs(res, 'histories')
                for k, rp in enumerate(steps):
                    evaluations += 1
                    runner.add_obs(res, 'subcases')
                    comps = _own_split(rp)
                    kinds = [_kind_of(c) for c in comps]
                    ctx = {'remote_path': _abbr(rp), 'chain': code, 'content': cls, 'content_where': where,
                           'pre_content': [_abbr(c) for c in created[:16]], 'download_dir': 'outer/dl',
                           'history': [_abbr(x) for x in steps], 'step': k, 'earlier_choices': list(trail)}
                    try:
                        if code in mgrs:
                            mgr, settings = mgrs[code]
                            settings.shares.download = dl
                            out = mgr.calculate_download_path(rp)
                        else:
                            out = naming.chain_strategies(chains[code], rp, dl)
                    except Exception as exc:  # noqa  (code under test)
                        if isinstance(exc, OSError) and _overlong(comps):
                            runner.add_obs(res, 'rejected_overlong')
                            trail.append('rejected:' + type(exc).__name__)
                        else:
                            runner.violation(res, f'exception:{type(exc).__name__}:{code}', message=str(exc)[:200], **ctx)
                            runner.add_obs(res, 'exceptions_on_named_paths')
                        continue
                    ok_pair = isinstance(out, tuple) and len(out) == 2 and all(isinstance(x, str) for x in out)
                    ctx['returned'] = [_abbr(_show(out[0], dl)), _abbr(out[1])] if ok_pair else None
                    full = os.path.join(out[0], out[1]) if ok_pair else None
                    # which kind of existing entry a stale choice would hit
                    label = 'earlier-download' if full in made else cls
                    runner.add_obs(res, 'history_steps_judged')
                    if ok_pair and len(out[1].encode('utf-8', 'replace')) > 200:
                        runner.add_obs(res, 'long_name_choices_judged')
                    _judge(res, code, rp, kinds, label, dl, out, ctx)
                    trail.append(ctx['returned'])
                    if not ok_pair or out[1] in ('', '.', '..'):
                        continue
                    # the download writes to the chosen location (never outside the scratch tree)
                    if os.path.commonpath([os.path.realpath(full), real_root]) != real_root:
                        continue
                    try:
                        os.makedirs(out[0], exist_ok=True)
                        with open(full, 'xb') as fh:
                            fh.write(b'download %d' % k)
                        made.append(full)
                        runner.add_obs(res, 'history_files_created')
                    except FileExistsError:
                        pass                                   # reported by the freshness rule above
                    except OSError:
                        runner.add_obs(res, 'history_creation_refused_by_os')   # e.g. ENAMETOOLONG: nothing created
                if len(steps) >= 2 or cls not in ('none', 'noise'):
                    res['csigs'].append(f"hist|{code}|{mode}|{sig_names}|{len(steps)}|{cls}|"
                                        f"{_sep_class(steps[0])}")
                if res['sample'] is None and len(steps) >= 2 and code == 'prod-default':
                    res['sample'] = {'kind': 'history', 'chain': code, 'steps': [_abbr(x) for x in steps],
                                     'content_class': cls, 'choices_in_order': trail}
                shutil.rmtree(pair_root, ignore_errors=True)
    finally:
        shutil.rmtree(root, ignore_errors=True)
    res['evaluations'] = evaluations
    return res


def _abbr(s: str) -> str:
    """Display form: a run of >= 20 equal characters is written c{xN}."""
    return re.sub(r'(.)\1{19,}', lambda m: '%s{x%d}' % (m.group(1), len(m.group(0))), s)


def _show(path: str, dl: str) -> str:
    """A returned directory with the scratch prefix replaced by 'outer' (the parent
    of the download directory 'outer/dl'), otherwise un-normalised."""
    outer = os.path.dirname(dl)
    if path == outer or path.startswith(outer + os.sep):
        return 'outer' + path[len(outer):]
    return path


def _snapshot(top: str) -> list[str]:
    out = []
    for dirpath, dirnames, filenames in os.walk(top):
        for n in dirnames:
            out.append(os.path.join(dirpath, n) + '/')
        for n in filenames:
            out.append(os.path.join(dirpath, n))
    out.sort()
    return out


def _rel_choice(mgrs, code: str, rp: str, dl: str):
    mgr, settings = mgrs[code]
    settings.shares.download = dl
    try:
        d, n = mgr.calculate_download_path(rp)
        return [_abbr(_show(d, dl)), _abbr(n)]
    except Exception as exc:  # noqa
        return f'raised {type(exc).__name__}'


# ---------------------------------------------------------------------------
# workload B (schedules) — NOT GENERATED YET.
# To be added: one real downloader, 2-3 SimPeer uploaders offering equally named
# files; monitor = aiofiles.open intervals per local_path (DESIGN C09 workload B).
# cases() must then also emit {'kind': 'schedule', ...} dicts and MIN_OBS gain
# the schedule counters.

def _run_schedule(params: dict) -> dict:
    from ..c09sched import run_schedule
    return run_schedule(params)


# ---------------------------------------------------------------------------
# module API

def cases(tier: str, seed: int) -> list[dict]:
    n_batches = 300 if tier == 'quick' else 20000
    n_batches = max(n_batches, -(-len(_ENUM) // PAIRS_PER_BATCH))
    out: list[dict] = []
    for i in range(n_batches):
        out.append({'kind': 'paths', 'case': i, 'seed': seed, 'start': i * PAIRS_PER_BATCH, 'n': PAIRS_PER_BATCH})
    # workload A2: histories of long-in-bytes names, each choice materialised before the next
    n_hist = 60 if tier == 'quick' else 4000
    n_hist = max(n_hist, -(-len(_HIST_ENUM) // HISTS_PER_BATCH))
    for i in range(n_hist):
        out.append({'kind': 'history', 'case': len(out), 'seed': seed, 'start': i * HISTS_PER_BATCH,
                    'n': HISTS_PER_BATCH})
    # workload B: interleavings of 2-3 downloads of equally named files (vf/c09sched.py)
    n_sched = 600 if tier == 'quick' else 40000
    for i in range(n_sched):
        out.append({'kind': 'schedule', 'case': len(out), 'seed': seed, 'i': i})
    return out


def run_case(params: dict) -> dict:
    kind = params.get('kind', 'paths')
    if kind == 'paths':
        return _run_paths(params)
    if kind == 'history':
        return _run_history(params)
    if kind == 'schedule':
        return _run_schedule(params)
    raise ValueError(f'unknown C09 case kind {kind!r}')
