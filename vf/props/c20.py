"""C20 — bandwidth limits: never exceeded, never stall (DESIGN §4 C20)."""
from __future__ import annotations

import asyncio
import random

from .. import runner
from ..simloop import SimLoop, install_time_shims
from ..world import run_world

ID = 'C20'
LEVEL = 'exploration'
RULE = ("Cases are seeded histories. kind=limiter: 1-4 consumer tasks draw tokens from the real rate limiters "
        "held by a real Network (+ real PeerConnection objects) under virtual time with seeded gap patterns "
        "(0, 100us, 3ms, 10ms, 1s, long idle) while the limit is changed through Network.set_*_speed_limit / "
        "load_speed_limits (raise, lower, to/from unlimited). kind=transfer: 1-3 parallel two-client transfers "
        "with upload/download limits, observed at the file connections. Oracle: token-bucket bound per window "
        "(sum of grants <= integral of limit + one second of the larger limit), exact per constant-limit segment; "
        "no suspension when unlimited; every take_tokens call returns within 120 virtual seconds. A case is "
        "non-trivial when >= 50 grants were judged under a positive limit; distinct = (kind, limit sequence class, "
        "consumer count, gap pattern, change kinds).")
ASSUMPTIONS = [
    "time is virtual: asyncio.sleep jitter of a real loop is not modelled",
    "quantifier bound: <= 4 concurrent consumers, limits 1..10000 KiB/s",
    "a take_tokens call that started under a positive limit may finish under the old limiter after a change "
    "(the property only forbids throttling of calls made while unlimited); across a change the bound allows one "
    "128-byte grant per consumer that was in flight at the change plus the (< 128 byte) remainder of the old bucket, "
    "which copy_tokens duplicates",
    "the bounded-progress (stall) rule is judged only in runs whose timers fire 0.2-3 ms late (seeded), as on a "
    "real loop: with exactly periodic virtual timers the 10 ms polling of several waiters phase-locks and one of "
    "them can lose every race, an artefact of exact virtual time that a real clock cannot produce (measured: max "
    "wait 25+ s with exact timers, < 3 s with 0.1 ms jitter); the never-exceeded rules are judged in all runs, "
    "including exact timers and equal consecutive clock readings",
]
MIN_OBS = {'quick': {'grants_judged': 20000, 'windows_checked': 20000, 'invariant_evals': 20000},
           'thorough': {'grants_judged': 500000, 'windows_checked': 500000, 'invariant_evals': 500000}}

GAPS = {'zero': 0.0, 'us100': 0.0001, 'ms3': 0.003, 'ms10': 0.01, 's1': 1.0, 'idle': 3600.0}
LIMITS = [1, 2, 7, 64, 1000, 10000]
STALL_BOUND = 120.0

_inv = {'evals': 0, 'bad': []}
SPIN_BOUND = 50000     # wake-ups of one take_tokens call (logical steps, not wall clock)


class _Spin(Exception):
    pass


_spin = {'task_counts': {}, 'installed': False}


def _install_spin_counter():
    """Counts the sleeps of each take_tokens call: a call that wakes up SPIN_BOUND times without
    returning makes no progress in logical steps (a Zeno loop does not advance virtual time either)."""
    if _spin['installed']:
        return
    import types
    import aioslsk.network.rate_limiter as rl
    proxy = types.ModuleType('asyncio_spin_proxy')
    proxy.__dict__.update({k: v for k, v in asyncio.__dict__.items() if not k.startswith('__')})
    real_sleep = asyncio.sleep

    async def sleep(delay, result=None):
        task = asyncio.current_task()
        n = _spin['task_counts'].get(task, 0) + 1
        _spin['task_counts'][task] = n
        if n > SPIN_BOUND:
            raise _Spin()
        return await real_sleep(delay, result)
    proxy.sleep = sleep
    rl.asyncio = proxy
    _spin['installed'] = True
_contract_installed = False


def _install_contract():
    """icontract class invariant on the real LimitedRateLimiter: 0 <= bucket <= limit.
    The condition records and returns True (a raising contract would abort the
    execution it observes)."""
    global _contract_installed
    if _contract_installed:
        return
    import icontract
    import aioslsk.network.rate_limiter as rl

    def bucket_in_range(self) -> bool:
        _inv['evals'] += 1
        if not (0 <= self.bucket <= self.limit_bps):
            if len(_inv['bad']) < 5:
                _inv['bad'].append({'bucket': self.bucket, 'limit_bps': self.limit_bps})
        return True

    rl.LimitedRateLimiter = icontract.invariant(bucket_in_range)(rl.LimitedRateLimiter)  # type: ignore
    _contract_installed = True


def cases(tier: str, seed: int) -> list[dict]:
    n_lim = 400 if tier == 'quick' else 40000
    n_xfer = 30 if tier == 'quick' else 2000
    out = []
    for i in range(n_lim):
        out.append({'kind': 'limiter', 'seed': seed, 'i': i})
    for i in range(n_xfer):
        out.append({'kind': 'transfer', 'seed': seed, 'i': i})
    return out


def run_case(params: dict) -> dict:
    if params['kind'] == 'limiter':
        return _run_limiter(params)
    return _run_transfer(params)


# ---------------------------------------------------------------------------
# bound checking over a grant history

def check_bound(res: dict, grants: list, changes: list, label: str, inflight_bytes: int = 0):
    """grants: [(seq, t, n, limiter_id, limiter_limit_bps)] in order of occurrence;
    changes: [(seq, t, limit_bps)] (0 = unlimited), first entry = initial limit.

    (1) per limiter object with a positive limit L: over all windows of its
        grants  sum n <= L*(t_j - t_i) + L   (exact token-bucket bound);
    (2) per maximal period of positive limits spanning >= 1 change: over all
        windows  sum n <= integral of the limit in force + the largest limit of
        the period (+ the calls that were in flight at a change: one grant per
        consumer per change, they are served by the limiter they started on)."""
    if not grants:
        return
    by_obj: dict = {}
    for g in grants:
        by_obj.setdefault((g[3], g[4]), []).append((g[1], g[2]))
    for (_, L), seg in by_obj.items():
        if L > 0:
            _scan(res, seg, lambda t, L=L: L * t, L, f'{label}:constant-limit')
    # (2) periods of positive limits, by sequence position
    periods = []
    cur = []
    for idx, (seq, t, L) in enumerate(changes):
        if L > 0:
            cur.append((seq, t, L))
        else:
            if cur:
                periods.append((cur, seq, t))
            cur = []
    if cur:
        periods.append((cur, None, None))
    for segs, end_seq, end_t in periods:
        if len(segs) < 2:
            continue
        lo_seq = segs[0][0]
        # calls that started before the period are served by the limiter of the previous period (bounded by (1))
        sub = [(g[1], g[2]) for g in grants if g[0] > lo_seq and (end_seq is None or g[0] < end_seq) and g[4] > 0
               and (len(g) < 6 or g[5] >= lo_seq)]
        if not sub:
            continue
        bounds = [(segs[i][1], segs[i + 1][1] if i + 1 < len(segs) else (end_t if end_t is not None else float('inf')), segs[i][2])
                  for i in range(len(segs))]

        def integral(t, bounds=bounds):
            acc = 0.0
            for (a, b, L) in bounds:
                if t <= a:
                    break
                acc += L * (min(t, b) - a)
            return acc
        burst = max(b[2] for b in bounds) + inflight_bytes * (len(segs) - 1)
        _scan(res, sub, integral, burst, f'{label}:across-change')


def _scan(res: dict, grants: list, integral, burst: float, label: str):
    """exists i<=j: sum_{i..j} n - (A(t_j) - A(t_i)) > burst  ?   O(n)."""
    runner.add_obs(res, 'windows_checked', len(grants))
    prefix = 0.0
    best = None     # min over i of (P_{i-1} - A(t_i))
    best_i = 0
    eps = 1e-6 * max(1.0, burst)
    for j, (t, nbytes) in enumerate(grants):
        a = integral(t)
        cand = prefix - a
        if best is None or cand < best:
            best, best_i = cand, j
        prefix += nbytes
        excess = (prefix - a) - best - burst
        if excess > eps:
            ti = grants[best_i][0]
            runner.violation(
                res, f'limit-exceeded:{label}',
                window=[round(ti, 6), round(t, 6)], granted=int(prefix - sum(g[1] for g in grants[:best_i])),
                allowed=round(a - integral(ti) + burst, 3), burst=burst, excess=round(excess, 3))
            return


# ---------------------------------------------------------------------------
# kind=limiter

def _run_limiter(params: dict) -> dict:
    res = runner.new_result(params['case'])
    rng = random.Random(f"{params['seed']}:C20:L:{params['i']}")
    _install_contract()
    _install_spin_counter()
    install_time_shims()
    _spin['task_counts'].clear()
    _inv['evals'] = 0
    _inv['bad'] = []

    direction = rng.choice(['upload', 'download'])
    n_cons = rng.randint(1, 4)
    pattern = [rng.choice(list(GAPS)) for _ in range(n_cons)]
    # keep the virtual horizon short for huge limits (each grant is 128 bytes)
    lim0 = rng.choice(LIMITS + [rng.randint(1, 10000), 0])
    n_changes = rng.choice([0, 0, 1, 1, 2, 3])
    changes = []
    for _ in range(n_changes):
        how = rng.choice(['raise', 'lower', 'unlimited', 'limited', 'same', 'load'])
        changes.append(how)
    max_requests = rng.choice([200, 600, 1500])

    from aioslsk.events import EventBus
    from aioslsk.network.connection import PeerConnection
    from aioslsk.network.network import Network
    from aioslsk.settings import CredentialsSettings, Settings

    loop = SimLoop()
    jitter = rng.choice([0.0, 0.0002, 0.001, 0.003])
    if jitter:
        loop.timer_jitter = (random.Random(f"{params['seed']}:C20:J:{params['i']}"), jitter)
    grants: list = []          # (seq, t, n, limiter id, limiter limit_bps, limit at call start)
    seqc = [0]
    keep: list = []            # keeps limiter objects alive so that id() stays unique
    calls: list = []           # (t_start, t_end, suspended, limit_at_start)
    limit_hist: list = []
    state = {'stop': False, 'open_calls': {}}

    async def main():
        settings = Settings(credentials=CredentialsSettings(username='x', password='y'))
        # the other direction has a limit of its own; a value loaded for this direction may coincide with it
        orng = random.Random(f"{params['seed']}:C20:other:{params['i']}")
        other_lim = orng.choice(LIMITS + [0])
        if direction == 'upload':
            settings.network.limits.upload_speed_kbps = lim0
            settings.network.limits.download_speed_kbps = other_lim
        else:
            settings.network.limits.download_speed_kbps = lim0
            settings.network.limits.upload_speed_kbps = other_lim
        net = Network(settings, EventBus())
        conns = []
        for k in range(n_cons):
            c = PeerConnection('h', 1, net, connection_type='F')
            c.upload_rate_limiter = net._upload_rate_limiter
            c.download_rate_limiter = net._download_rate_limiter
            net.peer_connections.append(c)
            conns.append(c)
        cur = {'kbps': lim0}
        limit_hist.append((0, loop.time(), lim0 * 1024))

        async def consumer(k: int):
            crng = random.Random(f"{params['seed']}:C20:L:{params['i']}:c{k}")
            gap_name = pattern[k]
            for r in range(max_requests):
                if state['stop']:
                    return
                lim_obj = conns[k].upload_rate_limiter if direction == 'upload' else conns[k].download_rate_limiter
                keep.append(lim_obj) if (not keep or keep[-1] is not lim_obj) else None
                started_limit = cur['kbps']
                t0, it0, seq0 = loop.time(), loop.iterations, seqc[0]
                state['open_calls'][k] = (t0, started_limit)
                _spin['task_counts'][asyncio.current_task()] = 0
                try:
                    nbytes = await lim_obj.take_tokens()
                except _Spin:
                    state['spins'] = state.get('spins', 0) + 1
                    state['spin_detail'] = {'limit_kbps': started_limit, 'bucket': lim_obj.bucket, 'consumers': n_cons,
                                            'waited_virtual': round(loop.time() - t0, 6)}
                    state['open_calls'].pop(k, None)
                    return
                t1, it1 = loop.time(), loop.iterations
                state['open_calls'].pop(k, None)
                seqc[0] += 1
                grants.append((seqc[0], t1, nbytes, id(lim_obj), lim_obj.limit_bps, seq0))
                calls.append((t0, t1, it1 != it0, started_limit))
                gap = GAPS[gap_name]
                if gap_name == 'idle':
                    # mostly short gaps, a long idle now and then
                    gap = 3600.0 if crng.random() < 0.02 else 0.003
                elif gap_name == 's1':
                    gap = 1.0 if crng.random() < 0.2 else 0.0001
                if gap > 0:
                    await asyncio.sleep(gap)
                else:
                    await asyncio.sleep(0)     # equal consecutive clock readings

        tasks = [loop.create_task(consumer(k)) for k in range(n_cons)]

        async def changer():
            for how in changes:
                await asyncio.sleep(rng.choice([0.0, 0.004, 0.05, 0.3, 1.5, 2.5]))
                old = cur['kbps']
                if how == 'raise':
                    new = min(10000, max(1, old) * rng.choice([2, 10]))
                elif how == 'lower':
                    new = max(1, old // rng.choice([2, 10]))
                elif how == 'unlimited':
                    new = 0
                elif how == 'limited':
                    new = rng.choice(LIMITS)
                elif how == 'same':
                    new = old
                else:
                    new = rng.choice(LIMITS + [0])
                    if orng.random() < 0.5 and other_lim != old:
                        new = other_lim          # coincides with the limit of the other direction
                        runner.add_obs(res, 'loaded_limit_equal_to_other_direction')
                cur['kbps'] = new
                if how == 'load':
                    if direction == 'upload':
                        settings.network.limits.upload_speed_kbps = new
                    else:
                        settings.network.limits.download_speed_kbps = new
                    net.load_speed_limits()
                elif direction == 'upload':
                    net.set_upload_speed_limit(new)
                else:
                    net.set_download_speed_limit(new)
                seqc[0] += 1
                limit_hist.append((seqc[0], loop.time(), new * 1024))
                runner.add_cover(res, 'change_kinds', how)

        ch = loop.create_task(changer())
        # horizon: until consumers finish, at most 20 virtual seconds of non-idle time per 128-byte budget
        done, pending = await asyncio.wait(tasks, timeout=8000.0)
        state['stop'] = True
        await ch
        # stall rule: calls still open
        now = loop.time()
        for k, (t0, started_limit) in list(state['open_calls'].items()):
            if started_limit > 0 and now - t0 > STALL_BOUND and jitter > 0:
                runner.violation(res, 'stall:take_tokens-never-returned', waited=round(now - t0, 3),
                                 limit_kbps=started_limit, consumers=n_cons, pattern=pattern)
        for t in pending:
            t.cancel()
        await asyncio.gather(*pending, return_exceptions=True)
        if state.get('spins'):
            d = state['spin_detail']
            if d['waited_virtual'] < SPIN_BOUND * 0.01 * 0.2:
                # woke up far more often than the 10 ms polling interval allows and still did not return
                runner.violation(res, 'stall:take_tokens-spins-without-progress', wakeups=SPIN_BOUND, **d)
            elif jitter > 0 and d['limit_kbps'] > 0:
                runner.violation(res, 'stall:take_tokens-slow', waited=d['waited_virtual'], limit_kbps=d['limit_kbps'],
                                 consumers=n_cons, pattern=pattern)

    try:
        loop.run_main(main(), wall_timeout=60)
    except BaseException as exc:  # noqa
        res['inconclusive'] = f'{type(exc).__name__}: {exc}'
    finally:
        exceptions = list(loop.exceptions)
        loop.shutdown_sim()

    if exceptions:
        res['inconclusive'] = f'loop exception in harness: {exceptions[0]}'

    # -- oracles -----------------------------------------------------------
    check_bound(res, grants, limit_hist, direction, inflight_bytes=128 * (n_cons + 1))
    judged = 0
    for (t0, t1, suspended, started_limit) in calls:  # noqa
        if started_limit == 0:
            runner.add_obs(res, 'unlimited_calls')
            # limit in force during the whole call must have been 0
            if suspended:
                runner.violation(res, 'throttled-while-unlimited', t=[round(t0, 6), round(t1, 6)])
        else:
            judged += 1
            if t1 - t0 > STALL_BOUND and jitter > 0:
                runner.violation(res, 'stall:take_tokens-slow', waited=round(t1 - t0, 3), limit_kbps=started_limit,
                                 consumers=n_cons, pattern=pattern)
    runner.add_obs(res, 'grants_judged', judged)
    runner.add_obs(res, 'invariant_evals', _inv['evals'])
    for bad in _inv['bad']:
        runner.violation(res, 'invariant:bucket-out-of-range', **bad)
    if judged >= 50:
        res['csigs'].append(f"L|{direction}|{_lim_class(lim0)}|{n_cons}|{sorted(pattern)}|{changes}")
    res['sample'] = {'kind': 'limiter', 'direction': direction, 'limit_kbps': lim0, 'consumers': n_cons,
                     'gaps': pattern, 'changes': changes, 'grants': len(grants),
                     'first_grants': [(round(g[1] - 1000.0, 4), g[2]) for g in grants[:6]],
                     'limit_history': [(round(t - 1000.0, 4), l) for _, t, l in limit_hist], 'timer_jitter': jitter}
    return res


def _lim_class(kbps: int) -> str:
    if kbps == 0:
        return 'unlimited'
    if kbps <= 2:
        return 'tiny'
    if kbps <= 64:
        return 'small'
    if kbps <= 1000:
        return 'medium'
    return 'large'


# ---------------------------------------------------------------------------
# kind=transfer (end to end)

def _run_transfer(params: dict) -> dict:
    from ..xfer import run_limited_transfers
    res = runner.new_result(params['case'])
    run_limited_transfers(res, params, check_bound)
    return res
