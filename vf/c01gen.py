"""Seeded, boundary-biased generator of in-domain message values for C01 (DESIGN §4 C01).

Works on the pinned layout only and produces *plain trees* (see ``vf.refcodec``) together
with a presence pattern and a boundary-class label per field. Nothing here imports aioslsk.

Stated domain of generated values
---------------------------------
* integers lie inside the width/sign of their wire type; ``boolean`` fields hold ``bool``;
* strings are valid Unicode without surrogates (=> valid UTF-8 which decodes back to the
  same string; the cp1252 fall-back of the decoder is never taken);
* IPv4 addresses are canonical dotted quads (no leading zeros);
* a field with ``if_true: c`` and no ``optional`` flag is non-None iff ``c`` is truthy
  (``if_false``: iff falsy);
* ``optional`` fields are present as a prefix of the *eligible* optionals (those whose
  own condition, if any, holds); an optional whose default is not None is never None;
* ``PeerInit.ticket`` stays inside uint32 (the uint64 branch of ``_PeerInitTicket`` is a
  read-side tolerance for foreign clients, not something the library writes).
"""
from __future__ import annotations

import random
from typing import Any, Optional

from vf.refcodec import INT_TYPES, Layout

LOW, HIGH, MIX = 'low', 'high', 'mix'

_POW = (7, 8, 15, 16, 31, 32, 63)
_ASCII = 'abcdefghijklmnopqrstuvwxyzABCDEFGHIJKLMNOPQRSTUVWXYZ0123456789 _-.!?()[]&\'"\\/:'
_TWO = ['\u00e9', '\u00f1', '\u0080', '\u07ff', '\u00ff', '\u0416', '\u03a9']
_THREE = ['\u4e20', '\u0800', '\uffff', '\ufeff', '\ud7ff', '\ue000', '\u20ac', '\u3042', '\ufffd']
_FOUR = ['\U00010000', '\U0010ffff', '\U0001f600', '\U0001d11e', '\U00020000']
_SPECIAL = ['\x00', 'a\x00b', '\ufeffabc', '\x7f', ' ', '\n', '\r\n', 'C:\\dir\\song.mp3', '\\\\', '@@abc\\Music\\x',
            'caf\u00e9', '\u00c3\u00a9', '%s%n', '\t', '0', 'None', '\u200b', 'e\u0301']
_IPS = [('0.0.0.0', 'z'), ('255.255.255.255', 'm'), ('1.2.3.4', 's'), ('0.0.0.1', 's'), ('1.0.0.0', 's'),
        ('127.0.0.1', 's'), ('255.0.0.0', 's'), ('0.0.0.255', 's'), ('192.168.0.1', 's'), ('10.200.30.4', 's')]
OBF_KEYS = [0, 0xFFFFFFFF, 0x80000000, 1, 0x7FFFFFFF, 0xFFFFFFFE, 0x00000080, 0x01000000]


def _int_pool(bits: int, signed: bool) -> list[tuple[int, str]]:
    if signed:
        top, bottom = 2 ** (bits - 1) - 1, -(2 ** (bits - 1))
        pool = [(0, 'z'), (1, 'o'), (-1, 'n1'), (top, 'm'), (bottom, 'mn')]
        for k in _POW:
            if 2 ** k < top:
                pool += [(2 ** k - 1, f'a{k}'), (2 ** k, f'b{k}'), (-(2 ** k), f'nb{k}'), (-(2 ** k) - 1, f'na{k}')]
        return pool
    top = 2 ** bits - 1
    pool = [(0, 'z'), (1, 'o'), (top, 'm')]
    for k in _POW:
        if 2 ** k < top:
            pool += [(2 ** k - 1, f'a{k}'), (2 ** k, f'b{k}')]
    return pool


_INT_POOLS = {name: _int_pool(size * 8, signed) for name, (size, signed) in INT_TYPES.items()}


def gen_int(rng: random.Random, tname: str, mode: str) -> tuple[int, str]:
    size, signed = INT_TYPES[tname]
    bits = size * 8
    if mode == LOW:
        return (-(2 ** (bits - 1)), 'mn') if signed else (0, 'z')
    if mode == HIGH:
        return (2 ** (bits - 1) - 1, 'm') if signed else (2 ** bits - 1, 'm')
    if rng.random() < 0.55:
        return rng.choice(_INT_POOLS[tname])
    nbits = rng.randint(1, bits - 1 if signed else bits)
    value = rng.getrandbits(nbits)
    if signed and rng.random() < 0.5:
        value = -value
    return value, 'r'


def _rand_char(rng: random.Random, nbytes: int) -> str:
    if nbytes == 1:
        return rng.choice(_ASCII)
    if nbytes == 2:
        return chr(rng.randint(0x80, 0x7FF))
    if nbytes == 3:
        while True:
            cp = rng.randint(0x800, 0xFFFF)
            if not 0xD800 <= cp <= 0xDFFF:
                return chr(cp)
    return chr(rng.randint(0x10000, 0x10FFFF))


def _ascii(rng: random.Random, n: int) -> str:
    return ''.join(rng.choice(_ASCII) for _ in range(n))


def _long_string(rng: random.Random, lo: int, hi: int) -> str:
    target = rng.randint(lo, hi)
    out, size = [], 0
    while size < target:
        nb = rng.choice((1, 1, 1, 2, 3, 4))
        out.append(_rand_char(rng, nb))
        size += nb
    return ''.join(out)


def gen_str(rng: random.Random, mode: str, depth: int) -> tuple[str, str]:
    if mode == LOW:
        return '', 'e'
    if mode == HIGH:
        return _long_string(rng, 129, 300 if depth == 0 else 160), 'L'
    roll = rng.random()
    if roll < 0.12:
        return '', 'e'
    if roll < 0.34:
        return _ascii(rng, rng.randint(1, 14)), 'a'
    if roll < 0.46:
        return _ascii(rng, rng.randint(0, 4)) + rng.choice(_TWO + [_rand_char(rng, 2)]) + _ascii(rng, rng.randint(0, 4)), '2'
    if roll < 0.58:
        return _ascii(rng, rng.randint(0, 4)) + rng.choice(_THREE + [_rand_char(rng, 3)]) + _ascii(rng, rng.randint(0, 4)), '3'
    if roll < 0.70:
        return _ascii(rng, rng.randint(0, 4)) + rng.choice(_FOUR + [_rand_char(rng, 4)]) + _ascii(rng, rng.randint(0, 4)), '4'
    if roll < 0.80:
        return rng.choice(_SPECIAL), 'x'
    if roll < 0.88:
        n = rng.choice((127, 128, 129, 255, 256, 257))
        if rng.random() < 0.5:
            return _ascii(rng, n), f'B{n}'
        ch = _rand_char(rng, rng.choice((2, 3, 4)))
        return ch + _ascii(rng, n - len(ch.encode('utf-8'))), f'B{n}'
    if depth == 0 and roll < 0.885:
        n = rng.choice((65535, 65536, 65537, 70001))
        return _ascii(rng, 40) * (n // 40) + 'x' * (n % 40), 'H'
    return _long_string(rng, 129, 420 if depth == 0 else 180), 'L'


def gen_blob(rng: random.Random, mode: str) -> tuple[bytes, str]:
    if mode == LOW:
        return b'', 'e'
    if mode == HIGH:
        return rng.randbytes(rng.randint(129, 600)), 'L'
    roll = rng.random()
    if roll < 0.2:
        return b'', 'e'
    if roll < 0.3:
        return rng.randbytes(1), '1'
    if roll < 0.4:
        return rng.choice((b'\xff\xfe\x00\x80', b'\x00\x00\x00\x00', b'\xc3\x28', b'\x89PNG\r\n\x1a\n')), 'k'
    if roll < 0.7:
        return rng.randbytes(rng.randint(2, 64)), 'r'
    return rng.randbytes(rng.randint(129, 700)), 'L'


def gen_ip(rng: random.Random, mode: str) -> tuple[str, str]:
    if mode == LOW:
        return '0.0.0.0', 'z'
    if mode == HIGH:
        return '255.255.255.255', 'm'
    if rng.random() < 0.5:
        return rng.choice(_IPS)
    return '.'.join(str(rng.randint(0, 255)) for _ in range(4)), 'r'


def _truthy_value(rng: random.Random, tname: str, want: bool) -> tuple[Any, str]:
    """Value of a condition-controlling field with the requested truthiness."""
    if tname == 'boolean':
        return want, 'T' if want else 'F'
    if tname in INT_TYPES:
        if not want:
            return 0, 'z'
        while True:
            value, label = gen_int(rng, tname, MIX)
            if value:
                return value, label
    raise ValueError(f'condition field of unsupported wire type {tname}')


class Generator:
    def __init__(self, lay: Layout):
        self.lay = lay

    # -- leaves / containers -----------------------------------------------------------
    def gen_typed(self, rng: random.Random, tname: str, subtype: Optional[str], mode: str, depth: int) -> tuple[Any, str]:
        if tname in INT_TYPES:
            return gen_int(rng, tname, mode)
        if tname == 'boolean':
            value = {LOW: False, HIGH: True}.get(mode, rng.random() < 0.5)
            return value, 'T' if value else 'F'
        if tname == 'string':
            return gen_str(rng, mode, depth)
        if tname == 'bytearr':
            return gen_blob(rng, mode)
        if tname == 'ipaddr':
            return gen_ip(rng, mode)
        if tname == 'array':
            return self.gen_array(rng, subtype, mode, depth)
        if tname in self.lay.records:
            tree, _pattern, labels = self.gen_fields(rng, self.lay.records[tname]['fields'], mode, depth + 1, 0)
            return tree, '{' + ','.join(labels) + '}'
        raise ValueError(f'unknown wire type {tname}')

    def gen_array(self, rng: random.Random, subtype: str, mode: str, depth: int) -> tuple[list, str]:
        many_hi = (6, 3, 2)[min(depth, 2)]
        if mode == LOW:
            n, cls = 0, '0'
        elif mode == HIGH:
            n, cls = many_hi, 'n'
        else:
            roll = rng.random()
            if roll < 0.22:
                n, cls = 0, '0'
            elif roll < 0.44:
                n, cls = 1, '1'
            elif depth == 0 and subtype not in self.lay.records and roll < 0.47:
                n, cls = rng.choice((255, 256, 257, 300)), 'N'
            else:
                n, cls = rng.randint(2, many_hi), 'n'
        items, first = [], ''
        elem_mode = mode if (mode != MIX and n <= 6) else MIX
        for i in range(n):
            if cls == 'N':
                # big arrays: cheap elements
                if subtype == 'string':
                    value, label = _ascii(rng, rng.randint(0, 3)), 'a'
                else:
                    value, label = self.gen_typed(rng, subtype, None, MIX, depth + 1)
            else:
                value, label = self.gen_typed(rng, subtype, None, elem_mode, depth + 1)
            if i == 0:
                first = label[:24]
            items.append(value)
        return items, f'A{cls}' + (f':{first}' if items else '')

    # -- a message / record --------------------------------------------------------------
    def gen_fields(self, rng: random.Random, fspecs: list[dict], mode: str, depth: int,
                   selector: int) -> tuple[dict, str, list[str]]:
        """``selector`` picks (condition branch, optional prefix length) systematically, so
        that consecutive selectors enumerate every presence pattern of the class."""
        cond_names = []
        for fs in fspecs:
            for key in ('if_true', 'if_false'):
                if key in fs and fs[key] not in cond_names:
                    cond_names.append(fs[key])
        branch_bits = selector % (2 ** len(cond_names)) if cond_names else 0
        opt_selector = selector // (2 ** len(cond_names)) if cond_names else selector

        values: dict = {}
        labels: dict = {}
        # pass 1: everything that is not 'optional'
        for fs in fspecs:
            name = fs['name']
            if fs.get('optional'):
                continue
            if not self._condition_holds(fs, values):
                values[name], labels[name] = None, '-'
                continue
            if name in cond_names:
                want = bool((branch_bits >> cond_names.index(name)) & 1)
                values[name], labels[name] = _truthy_value(rng, fs['type'], want)
            else:
                values[name], labels[name] = self.gen_typed(rng, fs['type'], fs.get('subtype'), mode, depth)
        # pass 2: optionals, present as a prefix of the eligible ones
        eligible = [fs for fs in fspecs if fs.get('optional') and self._condition_holds(fs, values)]
        min_k = 0
        for idx, fs in enumerate(eligible):
            if fs.get('has_default') and fs.get('default') is not None:
                min_k = idx + 1
        k = min_k + (opt_selector % (len(eligible) - min_k + 1)) if eligible else 0
        present = {fs['name'] for fs in eligible[:k]}
        for fs in fspecs:
            name = fs['name']
            if not fs.get('optional'):
                continue
            if name in present:
                values[name], labels[name] = self.gen_typed(rng, fs['type'], fs.get('subtype'), mode, depth)
            else:
                values[name], labels[name] = None, '-'
        ordered = {fs['name']: values[fs['name']] for fs in fspecs}
        pattern = ''.join(('P' if values[fs['name']] is not None else '-')
                          for fs in fspecs if fs.get('optional') or 'if_true' in fs or 'if_false' in fs)
        return ordered, pattern, [labels[fs['name']] for fs in fspecs]

    @staticmethod
    def _condition_holds(fs: dict, values: dict) -> bool:
        if 'if_true' in fs and not values.get(fs['if_true']):
            return False
        if 'if_false' in fs and values.get(fs['if_false']):
            return False
        return True

    def n_patterns(self, spec: dict) -> int:
        conds = {fs[k] for fs in spec['fields'] for k in ('if_true', 'if_false') if k in fs}
        nopt = sum(1 for fs in spec['fields'] if fs.get('optional'))
        return (2 ** len(conds)) * (nopt + 1)

    def gen_message(self, spec: dict, seed: int, index: int) -> dict:
        """Value number ``index`` of class ``spec`` under ``seed`` (pure function of those)."""
        rng = random.Random(f"{seed}:C01:{spec['name']}:{index}")
        npat = self.n_patterns(spec)
        # the first 2*npat values sweep all presence patterns in all-low / all-high mode,
        # everything after that mixes boundary and random values, still cycling patterns
        if index < npat:
            mode = LOW
        elif index < 2 * npat:
            mode = HIGH
        else:
            mode = MIX
        tree, pattern, labels = self.gen_fields(rng, spec['fields'], mode, 0, index)
        nontrivial = any((not fs.get('has_default')) or tree[fs['name']] != fs.get('default') for fs in spec['fields'])
        return {'tree': tree, 'pattern': pattern, 'labels': labels, 'mode': mode, 'nontrivial': nontrivial,
                'csig': f"{spec['name']}|{pattern}|{','.join(labels)}"}


def gen_key(rng: random.Random) -> bytes:
    if rng.random() < 0.5:
        return rng.choice(OBF_KEYS).to_bytes(4, 'little')
    return rng.randbytes(4)
