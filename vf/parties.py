"""Scripted remote parties: SimServer and SimPeer (DESIGN §2.3).

They speak ordinary, well-formed frames built with the repository's own message
classes unless a scenario deliberately asks for something else.
"""
from __future__ import annotations

import asyncio
import traceback
from typing import Any, Callable, Optional

from aioslsk.protocol import obfuscation
from aioslsk.protocol.messages import (
    AddUser,
    CannotConnect,
    ConnectToPeer,
    DistributedMessage,
    GetPeerAddress,
    GetUserStatus,
    Login,
    PeerInit,
    PeerInitializationMessage,
    PeerMessage,
    PeerPierceFirewall,
    RemoveUser,
    ServerMessage,
    SetListenPort,
)
from aioslsk.protocol.primitives import MessageDataclass, UserStats

from .simnet import NODE, SimNet

SERVER_PORT = 2416


def _u32(b: bytes) -> int:
    return int.from_bytes(b[:4], 'little')


class Undecodable:
    def __init__(self, data: bytes, exc: BaseException):
        self.data, self.exc = data, exc

    def __repr__(self):
        return f"<Undecodable {self.data[:24]!r} {self.exc!r}>"


class ServerSession:
    def __init__(self, server: 'SimServer', reader, writer, no: int):
        self.server, self.reader, self.writer, self.no = server, reader, writer, no
        self.username: Optional[str] = None
        self.port = 0
        self.obf_port = 0
        self.frames: list[tuple[float, Any]] = []
        self.open = True
        self.logged_in = False

    def send(self, *messages):
        for m in messages:
            data = m.serialize() if isinstance(m, MessageDataclass) else bytes(m)
            self.server.sent.append((self.server.world.now, self.username, m))
            self.writer.write(data)

    def close(self, mode: str = 'eof'):
        self.open = False
        if mode == 'rst':
            self.writer.transport.abort()
        else:
            self.writer.close()


class SimServer:
    """Scripted SoulSeek server."""

    def __init__(self, world, port: int = SERVER_PORT, node: str = 'server'):
        self.world = world
        self.net: SimNet = world.net
        self.port, self.node = port, node
        self.sessions: list[ServerSession] = []
        self.by_user: dict[str, ServerSession] = {}
        self.fake_users: dict[str, dict] = {}         # scripted peers that never log in
        self.frames: list[tuple[float, Optional[str], Any]] = []   # every decoded frame, in arrival order
        self.sent: list[tuple[float, Optional[str], Any]] = []
        self.login_mode: Callable[[str], str] = lambda username: 'accept'
        self.post_login: Callable[[ServerSession], list] = lambda session: []
        self.overrides: dict[type, Callable[[ServerSession, Any], bool]] = {}
        self.user_answer: Callable[[ServerSession, str], Optional[str]] = self._default_user_answer
        self.address_answer: Optional[Callable[[ServerSession, str], Any]] = None
        self.relay_connect_to_peer = True
        self.omit_obfuscated_fields = False
        self.on_frame: Optional[Callable[[ServerSession, Any], None]] = None
        self.listener = None

    async def start(self):
        tok = NODE.set(self.node)
        try:
            self.listener = await self.net.start_server(self._on_conn, 'srv', self.port)
        finally:
            NODE.reset(tok)

    def stop_listening(self):
        if self.listener:
            self.listener.close()

    # -- defaults ------------------------------------------------------------
    def _default_user_answer(self, session: ServerSession, username: str) -> Optional[str]:
        if username in self.by_user or username in self.fake_users:
            return 'exists'
        return 'notexists'

    def register_fake_user(self, name: str, ip: str, port: int, obf_port: int = 0,
                           on_connect_to_peer: Optional[Callable] = None, status: int = 2):
        self.fake_users[name] = {'ip': ip, 'port': port, 'obf': obf_port, 'cb': on_connect_to_peer,
                                 'status': status}

    def address_of(self, username: str):
        s = self.by_user.get(username)
        if s is not None and s.open:
            return self.net.ip_of(s.username), s.port, s.obf_port
        f = self.fake_users.get(username)
        if f is not None:
            return f['ip'], f['port'], f['obf']
        return None

    # -- connection handling -------------------------------------------------
    async def _on_conn(self, reader, writer):
        session = ServerSession(self, reader, writer, len(self.sessions))
        self.sessions.append(session)
        try:
            while True:
                try:
                    hdr = await reader.readexactly(4)
                    body = await reader.readexactly(_u32(hdr))
                except (asyncio.IncompleteReadError, ConnectionError):
                    break
                data = hdr + body
                try:
                    msg = ServerMessage.deserialize_request(data)
                except Exception as exc:  # noqa
                    msg = Undecodable(data, exc)
                session.frames.append((self.world.now, msg))
                self.frames.append((self.world.now, session.username, msg))
                try:
                    self._handle(session, msg)
                except Exception:  # harness bug
                    self.world.harness_error('server handler', traceback.format_exc())
        finally:
            session.open = False
            if session.username and self.by_user.get(session.username) is session:
                del self.by_user[session.username]
            if not writer.is_closing():
                writer.close()

    def _handle(self, session: ServerSession, msg):
        if self.on_frame is not None:
            self.on_frame(session, msg)
        ov = self.overrides.get(type(msg))
        if ov is not None and ov(session, msg):
            return
        if isinstance(msg, Login.Request):
            session.username = msg.username
            mode = self.login_mode(msg.username)
            if mode == 'accept':
                session.logged_in = True
                self.by_user[msg.username] = session
                session.send(Login.Response(
                    success=True, greeting='hello', ip='1.2.3.4', md5hash='abc', privileged=False))
                session.send(*self.post_login(session))
            elif mode == 'reject':
                session.send(Login.Response(success=False, reason='INVALIDPASS'))
            elif mode == 'garbage':
                session.writer.write(b'\x07\x00\x00\x00\x01\x00\x00\x00\xff\xff\xff')
            elif mode == 'other':
                session.send(GetUserStatus.Response(msg.username, 2, False))
            elif mode == 'eof':
                session.close('eof')
            # 'silent': nothing
        elif isinstance(msg, SetListenPort.Request):
            session.port = msg.port
            session.obf_port = msg.obfuscated_port or 0
        elif isinstance(msg, GetPeerAddress.Request):
            if self.address_answer is not None:
                ans = self.address_answer(session, msg.username)
                if ans is None:
                    return
                if ans is not True:
                    session.send(ans)
                    return
            addr = self.address_of(msg.username)
            if addr is None:
                session.send(GetPeerAddress.Response(msg.username, '0.0.0.0', 0, 0, 0))
            else:
                ip, port, obf = addr
                if self.omit_obfuscated_fields and not obf:
                    # the obfuscated-port fields are optional on the wire: a server may leave them out
                    session.send(GetPeerAddress.Response(msg.username, ip, port))
                else:
                    session.send(GetPeerAddress.Response(msg.username, ip, port, 1 if obf else 0, obf))
        elif isinstance(msg, AddUser.Request):
            ans = self.user_answer(session, msg.username)
            if ans == 'exists':
                status = 2
                f = self.fake_users.get(msg.username)
                if f is not None:
                    status = f.get('status', 2)
                session.send(AddUser.Response(msg.username, True, status, UserStats(1000, 10, 5, 2), 'DE'))
            elif ans == 'notexists':
                session.send(AddUser.Response(msg.username, False))
            # None / 'silence': nothing
        elif isinstance(msg, ConnectToPeer.Request):
            if not self.relay_connect_to_peer:
                return
            target = self.by_user.get(msg.username)
            me = session.username or ''
            ip = self.net.ip_of(me)
            if target is not None and target.open:
                if self.omit_obfuscated_fields and not session.obf_port:
                    target.send(ConnectToPeer.Response(me, msg.typ, ip, session.port, msg.ticket, False))
                else:
                    target.send(ConnectToPeer.Response(
                        me, msg.typ, ip, session.port, msg.ticket, False,
                        1 if session.obf_port else 0, session.obf_port))
            else:
                f = self.fake_users.get(msg.username)
                if f is not None and f['cb'] is not None:
                    f['cb'](ConnectToPeer.Response(
                        me, msg.typ, ip, session.port, msg.ticket, False,
                        1 if session.obf_port else 0, session.obf_port))
                else:
                    session.send(CannotConnect.Response(msg.ticket))
        elif isinstance(msg, CannotConnect.Request):
            target = self.by_user.get(msg.username or '')
            if target is not None and target.open:
                target.send(CannotConnect.Response(msg.ticket))
            else:
                f = self.fake_users.get(msg.username or '')
                if f is not None and f.get('cannot_cb'):
                    f['cannot_cb'](msg)

    # -- helpers for scenarios --------------------------------------------------
    def session_of(self, username: str) -> Optional[ServerSession]:
        return self.by_user.get(username)

    def push(self, username: str, *messages):
        s = self.by_user.get(username)
        if s is None or not s.open:
            raise RuntimeError(f'no session for {username}')
        s.send(*messages)

    def frames_of(self, username: str, cls=None, since: float = -1.0) -> list:
        out = []
        for t, u, m in self.frames:
            if u == username and t >= since and (cls is None or isinstance(m, cls)):
                out.append((t, m))
        return out


# ---------------------------------------------------------------------------

class PeerLink:
    """One connection of a scripted peer (either direction)."""

    def __init__(self, peer: 'SimPeer', reader, writer, incoming: bool, obfuscated: bool):
        self.peer, self.reader, self.writer = peer, reader, writer
        self.incoming, self.obfuscated = incoming, obfuscated
        self.typ: Optional[str] = None
        self.remote_user: Optional[str] = None
        self.init: Any = None
        self.frames: list[tuple[float, Any]] = []
        self.sent: list[tuple[float, Any]] = []
        self.closed = False           # we saw EOF / error
        self.close_exc: Optional[BaseException] = None
        self.reader_task: Optional[asyncio.Task] = None
        self.conn = writer.transport.conn
        self.tags: dict = {}

    @property
    def now(self) -> float:
        return self.peer.world.now

    def encode(self, message) -> bytes:
        data = message.serialize() if isinstance(message, MessageDataclass) else bytes(message)
        if self.obfuscated and (self.typ in (None, 'P')):
            data = obfuscation.encode(data, self.peer.world.rng.randbytes(4))
        return data

    def send(self, *messages):
        for m in messages:
            self.sent.append((self.now, m))
            self.writer.write(self.encode(m))

    def send_raw(self, data: bytes):
        self.sent.append((self.now, data))
        self.writer.write(data)

    async def read_frame_bytes(self) -> Optional[bytes]:
        """Returns one frame (header included, de-obfuscated) or None on EOF."""
        try:
            if self.obfuscated and self.typ in (None, 'P'):
                hdr = await self.reader.readexactly(8)
                n = _u32(obfuscation.decode(hdr))
                body = await self.reader.readexactly(n)
                return obfuscation.decode(hdr + body)
            hdr = await self.reader.readexactly(4)
            body = await self.reader.readexactly(_u32(hdr))
            return hdr + body
        except asyncio.IncompleteReadError as exc:
            self.closed = True
            if exc.partial:
                self.close_exc = exc
            return None
        except (ConnectionError, OSError) as exc:
            self.closed = True
            self.close_exc = exc
            return None

    async def read_init(self):
        data = await self.read_frame_bytes()
        if data is None:
            return None
        try:
            self.init = PeerInitializationMessage.deserialize_request(data)
        except Exception as exc:  # noqa
            self.init = Undecodable(data, exc)
        return self.init

    async def frame_loop(self):
        while True:
            data = await self.read_frame_bytes()
            if data is None:
                break
            try:
                if self.typ == 'D':
                    msg = DistributedMessage.deserialize_request(data)
                else:
                    msg = PeerMessage.deserialize_request(data)
            except Exception as exc:  # noqa
                msg = Undecodable(data, exc)
            self.frames.append((self.now, msg))
            self.peer.all_frames.append((self.now, self, msg))
            try:
                res = self.peer.on_frame(self, msg) if self.peer.on_frame else None
                if asyncio.iscoroutine(res):
                    await res
            except Exception:
                self.peer.world.harness_error(f'peer {self.peer.name} on_frame', traceback.format_exc())
        try:
            res = self.peer.on_link_closed(self) if self.peer.on_link_closed else None
            if asyncio.iscoroutine(res):
                await res
        except Exception:
            self.peer.world.harness_error(f'peer {self.peer.name} on_link_closed', traceback.format_exc())

    def start_frame_loop(self):
        self.reader_task = self.peer.world.spawn(self.peer.name, self.frame_loop(), name=f'peer-{self.peer.name}-reader')

    async def read_exactly(self, n: int) -> Optional[bytes]:
        try:
            return await self.reader.readexactly(n)
        except asyncio.IncompleteReadError as exc:
            self.closed = True
            self.close_exc = exc if exc.partial else None
            return None
        except (ConnectionError, OSError) as exc:
            self.closed = True
            self.close_exc = exc
            return None

    async def read_some(self, n: int = 65536) -> Optional[bytes]:
        try:
            data = await self.reader.read(n)
        except (ConnectionError, OSError) as exc:
            self.closed = True
            self.close_exc = exc
            return None
        if not data:
            self.closed = True
            return None
        return data

    def close(self):
        if not self.writer.is_closing():
            self.writer.close()

    def abort(self):
        self.writer.transport.abort()

    def stop_reading(self):
        self.writer.transport.pause_reading()

    def __repr__(self):
        return f"<PeerLink {self.peer.name}<->{self.remote_user} typ={self.typ} in={self.incoming} conn={self.conn.id}>"


class SimPeer:
    """A scripted user: listens and/or dials, never runs library code."""

    def __init__(self, world, name: str, port: int, obf_port: int = 0, listen: bool = True, status: int = 2):
        self.world, self.name, self.port, self.obf_port = world, name, port, obf_port
        self.net: SimNet = world.net
        self.links: list[PeerLink] = []
        self.all_frames: list[tuple[float, PeerLink, Any]] = []
        self.connect_to_peer_requests: list[tuple[float, Any]] = []
        self.cannot_connect: list[tuple[float, Any]] = []
        self.on_frame: Optional[Callable[[PeerLink, Any], Any]] = None
        self.on_link: Optional[Callable[[PeerLink], Any]] = None       # after init parsed / sent
        self.on_link_closed: Optional[Callable[[PeerLink], Any]] = None
        self.on_connect_to_peer: Optional[Callable[[Any], Any]] = None  # default: pierce
        self.accept_mode: Callable[[PeerLink], str] = lambda link: 'normal'
        self.listen = listen
        self.status = status
        self.listeners: list = []
        self.ip = self.net.ip_of(name)

    async def start(self, register: bool = True):
        tok = NODE.set(self.name)
        try:
            if self.listen:
                if self.port:
                    self.listeners.append(await self.net.start_server(
                        lambda r, w: self._on_accept(r, w, False), '0.0.0.0', self.port))
                if self.obf_port:
                    self.listeners.append(await self.net.start_server(
                        lambda r, w: self._on_accept(r, w, True), '0.0.0.0', self.obf_port))
        finally:
            NODE.reset(tok)
        if register:
            self.register()

    def register(self):
        self.world.server.register_fake_user(
            self.name, self.ip, self.port, self.obf_port, on_connect_to_peer=self._on_connect_to_peer,
            status=self.status)
        self.world.server.fake_users[self.name]['cannot_cb'] = lambda m: self.cannot_connect.append((self.world.now, m))

    def stop_listening(self):
        for l in self.listeners:
            l.close()
        self.listeners = []

    # -- incoming ----------------------------------------------------------------
    async def _on_accept(self, reader, writer, obfuscated: bool):
        link = PeerLink(self, reader, writer, incoming=True, obfuscated=obfuscated)
        self.links.append(link)
        mode = self.accept_mode(link)
        if mode == 'close':
            link.close()
            return
        if mode == 'abort':
            link.abort()
            return
        if mode == 'silent':
            link.stop_reading()
            return
        init = await link.read_init()
        if init is None:
            return
        if isinstance(init, PeerInit.Request):
            link.typ, link.remote_user = init.typ, init.username
        elif isinstance(init, PeerPierceFirewall.Request):
            pend = self.world.pending_pierce.pop((self.name, init.ticket), None)
            if pend:
                link.typ, link.remote_user = pend
        await self._link_ready(link)

    async def _link_ready(self, link: PeerLink):
        try:
            res = self.on_link(link) if self.on_link else None
            if asyncio.iscoroutine(res):
                await res
        except Exception:
            self.world.harness_error(f'peer {self.name} on_link', traceback.format_exc())
        if link.typ in ('P', 'D') and link.reader_task is None and not link.tags.get('manual'):
            link.start_frame_loop()

    # -- outgoing ------------------------------------------------------------------
    async def dial(self, port: int, typ: str, *, host: Optional[str] = None, obfuscated: bool = False,
                   init: Any = 'peerinit', ticket: int = 0, remote_user: Optional[str] = None,
                   manual: bool = False) -> PeerLink:
        tok = NODE.set(self.name)
        try:
            reader, writer = await self.net.open_connection(host or '10.0.0.1', port)
        finally:
            NODE.reset(tok)
        link = PeerLink(self, reader, writer, incoming=False, obfuscated=obfuscated)
        link.remote_user = remote_user
        if manual:
            link.tags['manual'] = True
        self.links.append(link)
        if init == 'peerinit':
            link.send(PeerInit.Request(self.name, typ, ticket))
        elif init == 'pierce':
            link.send(PeerPierceFirewall.Request(ticket))
        elif init is not None:
            link.send_raw(init if isinstance(init, bytes) else link.encode(init))
        link.typ = typ
        await self._link_ready(link)
        return link

    def _on_connect_to_peer(self, msg: ConnectToPeer.Response):
        self.connect_to_peer_requests.append((self.world.now, msg))
        if self.on_connect_to_peer is not None:
            res = self.on_connect_to_peer(msg)
            if asyncio.iscoroutine(res):
                self.world.spawn(self.name, res, name=f'peer-{self.name}-ctp')
            return
        self.world.spawn(self.name, self.pierce(msg), name=f'peer-{self.name}-pierce')

    async def pierce(self, msg: ConnectToPeer.Response, delay: float = 0.0, obfuscated: Optional[bool] = None):
        if delay:
            await asyncio.sleep(delay)
        use_obf = bool(msg.obfuscated_port) and (obfuscated if obfuscated is not None else not msg.port)
        port = msg.obfuscated_port if use_obf else msg.port
        try:
            return await self.dial(port, msg.typ, host=msg.ip, obfuscated=use_obf, init='pierce',
                                   ticket=msg.ticket, remote_user=msg.username)
        except (ConnectionError, OSError):
            self.cannot_report(msg)
            return None

    def cannot_report(self, msg: ConnectToPeer.Response):
        s = self.world.server.by_user.get(msg.username)
        if s is not None and s.open:
            s.send(CannotConnect.Response(msg.ticket))

    def frames_of(self, cls=None, user: Optional[str] = None) -> list:
        return [(t, l, m) for t, l, m in self.all_frames
                if (cls is None or isinstance(m, cls)) and (user is None or l.remote_user == user)]
