"""Virtual-time event loop, deterministic executor and time shims (DESIGN §2.1).

Nothing about asyncio's scheduling is changed: the ready queue stays FIFO, tasks
are stepped by CPython's own code.  The only difference to a production loop is
that ``time()`` is a virtual clock which jumps to the earliest timer whenever
nothing is ready, and that thread-pool jobs run on the loop thread at a seeded
later virtual instant.
"""
from __future__ import annotations

import asyncio
import concurrent.futures
import heapq
import random
import signal
import time as _real_time
from typing import Any, Callable, Optional

T0 = 1000.0
EPOCH = 1_700_000_000.0


class SimDeadlock(RuntimeError):
    """Nothing ready, nothing scheduled, main coroutine not finished."""


class WallClockWatchdog(KeyboardInterrupt):
    """Raised by SIGALRM: the case ran too long in wall time -> inconclusive.

    A KeyboardInterrupt subclass on purpose: asyncio stores any other BaseException raised inside a task step on
    the task (where a library ``except``/``finally`` may swallow it) but re-raises KeyboardInterrupt / SystemExit
    out of the loop at once."""


class VirtualBudgetExceeded(KeyboardInterrupt):
    """The world's virtual-time budget is used up (main coroutine blocked while background jobs tick) -> inconclusive."""


class SimExecutor(concurrent.futures.ThreadPoolExecutor):
    """Runs jobs on the loop thread, at once or at a later virtual instant."""

    def __init__(self, loop: 'SimLoop'):
        super().__init__(max_workers=1)
        self._loop = loop
        self.jobs = 0
        self.max_delay = 0.0          # seconds of virtual latency (0 = inline)
        self.rng: Optional[random.Random] = None
        self.delay_fn: Optional[Callable[[Callable], Optional[float]]] = None
        self._last = 0.0

    def submit(self, fn, /, *args, **kwargs):  # type: ignore[override]
        fut: concurrent.futures.Future = concurrent.futures.Future()
        self.jobs += 1

        def run():
            if not fut.set_running_or_notify_cancel():
                return
            try:
                fut.set_result(fn(*args, **kwargs))
            except BaseException as exc:  # noqa
                fut.set_exception(exc)

        delay = 0.0
        if self.delay_fn is not None:
            d = self.delay_fn(fn)
            if d is not None:
                delay = d
        elif self.max_delay > 0 and self.rng is not None:
            delay = self.rng.choice((0.0, 0.0, self.rng.uniform(0, self.max_delay)))

        if delay <= 0.0:
            run()
        else:
            self._loop.call_at(self._loop.time() + delay, run)
        return fut

    def shutdown(self, wait=True, *, cancel_futures=False):  # type: ignore[override]
        super().shutdown(wait=False, cancel_futures=cancel_futures)


class SimLoop(asyncio.SelectorEventLoop):

    def __init__(self):
        super().__init__()
        self._vt = T0
        self.jumps = 0
        self.iterations = 0
        self.sim_executor = SimExecutor(self)
        self.set_default_executor(self.sim_executor)
        self.max_virtual: Optional[float] = None
        self.exceptions: list[dict] = []
        self._main_task: Optional[asyncio.Task] = None
        super().set_exception_handler(self._record_exception)
        self.user_exception_handler = None

    # -- clock -----------------------------------------------------------
    def time(self) -> float:
        return self._vt

    #: optional (rng, max_seconds): every timer fires up to max_seconds late,
    #: as on a real loop (never early).  Off by default (exact timers).
    timer_jitter = None

    def call_at(self, when, callback, *args, context=None):
        if self.timer_jitter is not None and when > self._vt:
            rng, mx = self.timer_jitter
            when = when + rng.uniform(0.0, mx)
        return super().call_at(when, callback, *args, context=context)

    @property
    def now(self) -> float:
        return self._vt - T0

    def stall(self, seconds: float):
        """The callback that is running 'takes' this long: virtual time passes without the loop getting
        control, as with a slow synchronous callback, a GC pause or blocking I/O on a real loop.  Every timer
        that comes due meanwhile fires in the NEXT iteration, all in one batch, in the order of their deadlines
        (e.g. a segment delivery due at D-1ms and a timeout due at D: delivery first, the timeout right behind it,
        before any task woken by the delivery has run)."""
        if seconds > 0:
            self._vt += seconds

    def _run_once(self):
        self.iterations += 1
        if self.max_virtual is not None and self._vt - T0 > self.max_virtual:
            self.max_virtual = None
            raise VirtualBudgetExceeded(f'virtual time budget exceeded')
        if not self._ready:
            sched = self._scheduled
            while sched and sched[0]._cancelled:
                h = heapq.heappop(sched)
                h._scheduled = False
                self._timer_cancelled_count = max(0, self._timer_cancelled_count - 1)
            if sched:
                when = sched[0]._when
                if when > self._vt:
                    self._vt = when
                    self.jumps += 1
            elif self._main_task is not None and not self._main_task.done() and not self._stopping:
                # would block for ever in select()
                raise SimDeadlock("no ready callbacks and no timers")
        super()._run_once()

    # -- exception handler: always record, then forward -------------------
    def set_exception_handler(self, handler):
        # the client installs its own handler in start(); keep ours in front
        self.user_exception_handler = handler

    def _record_exception(self, loop, context):
        exc = context.get('exception')
        self.exceptions.append({
            't': round(self.now, 6),
            'message': context.get('message'),
            'exception': repr(exc) if exc is not None else None,
            'exc_type': type(exc).__name__ if exc is not None else None,
            'task': _task_name(context.get('task') or context.get('future')),
        })
        if self.user_exception_handler is not None:
            try:
                self.user_exception_handler(loop, context)
            except Exception:  # pragma: no cover
                pass

    # -- running ----------------------------------------------------------
    def run_main(self, coro, wall_timeout: float = 60.0):
        """Run ``coro`` to completion under a wall-clock watchdog."""
        asyncio.set_event_loop(self)

        def on_alarm(signum, frame):
            raise WallClockWatchdog()

        old = signal.signal(signal.SIGALRM, on_alarm)
        signal.setitimer(signal.ITIMER_REAL, wall_timeout)
        try:
            self._main_task = self.create_task(coro, name='vf-main')
            return self.run_until_complete(self._main_task)
        finally:
            signal.setitimer(signal.ITIMER_REAL, 0)
            signal.signal(signal.SIGALRM, old)

    def shutdown_sim(self):
        """Cancel whatever is left and close the loop (never raises)."""
        try:
            pending = [t for t in asyncio.all_tasks(self) if not t.done()]
            for t in pending:
                t.cancel()
            if pending:
                try:
                    self.run_until_complete(asyncio.gather(*pending, return_exceptions=True))
                except BaseException:  # noqa
                    pass
        except BaseException:  # noqa
            pass
        try:
            self.sim_executor.shutdown(wait=False)
        except BaseException:  # noqa
            pass
        try:
            self.close()
        except BaseException:  # noqa
            pass
        asyncio.set_event_loop(None)


def _task_name(obj) -> Optional[str]:
    try:
        return obj.get_name()
    except Exception:
        return None


class _TimeShim:
    """Stands in for the ``time`` module inside selected aioslsk modules."""

    def __init__(self):
        self._real = _real_time

    def _loop(self):
        loop = asyncio._get_running_loop()
        if loop is None:
            try:
                loop = asyncio.get_event_loop_policy()._local._loop  # type: ignore[attr-defined]
            except Exception:
                loop = None
        return loop

    def monotonic(self) -> float:
        loop = self._loop()
        if isinstance(loop, SimLoop):
            return loop.time()
        return self._real.monotonic()

    perf_counter = monotonic

    def time(self) -> float:
        loop = self._loop()
        if isinstance(loop, SimLoop):
            return EPOCH + loop.time()
        return self._real.time()

    def __getattr__(self, name):
        return getattr(self._real, name)


TIME_SHIM = _TimeShim()
_installed = False


def install_time_shims():
    """Rebind ``time`` in the aioslsk modules that read the clock directly."""
    global _installed
    if _installed:
        return
    import aioslsk.network.rate_limiter as rl
    import aioslsk.transfer.model as tmodel
    import aioslsk.transfer.manager as tmanager
    import aioslsk.room.manager as rmanager
    import aioslsk.shares.manager as smanager
    for mod in (rl, tmodel, tmanager, rmanager, smanager):
        mod.time = TIME_SHIM  # type: ignore[attr-defined]
    _installed = True


async def settle(dt: float = 0.0, max_iters: int = 100000):
    """Run until nothing is ready at the current virtual instant; if ``dt`` > 0
    let that much virtual time pass first (and settle at the end)."""
    loop: SimLoop = asyncio.get_running_loop()  # type: ignore[assignment]
    if dt > 0:
        await asyncio.sleep(dt)
    # Our own continuation is one of the ready callbacks: yield until the
    # ready queue holds nothing else at this instant.
    for _ in range(max_iters):
        await asyncio.sleep(0)
        if len(loop._ready) == 0:
            # no one else ready right now; timers due exactly now?
            now = loop.time()
            if not any((not h._cancelled) and h._when <= now for h in loop._scheduled):
                break


async def yields(n: int):
    for _ in range(n):
        await asyncio.sleep(0)
