#!/bin/sh
# Offline set-up: puts icontract + jsonschema beside the repository's own
# interpreter (git-ignored /verif/.deps).  Idempotent.
set -e
cd "$(dirname "$0")"
if [ ! -f .deps/.ok ]; then
  rm -rf .deps
  PIP_NO_INDEX=1 /venv/bin/pip install --quiet --no-index --find-links /opt/veriftools/wheels \
      --target .deps icontract jsonschema >/dev/null 2>&1 || {
        echo "setup: pip install into .deps failed" >&2; exit 1; }
  touch .deps/.ok
fi
echo "setup ok"
